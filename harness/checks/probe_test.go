package checks

import (
	"fmt"
	"testing"

	"verif/vstore"
)

func TestProbe(t *testing.T) {
	fmt.Printf("file engine semantics: %+v\n", vstore.DefaultFileSem)
	for _, l := range fileSemTrace {
		fmt.Println("  ", l)
	}
}

func TestConformance(t *testing.T) {
	n, mm, err := vstoreConformance(3)
	fmt.Println(n, mm, err)
	if mm != "" || err != nil {
		t.Fail()
	}
}
