package checks

import (
	"fmt"
	"os"
	"strconv"
	"testing"
	"time"

	"verif/lk"
	"verif/rep"
)

// ---- C12: linearizable branch/metadata updates -------------------------------

func c12Scenarios() []concScenario {
	mkp := lk.Op{Kind: "createpool", Pool: "p", Key: "k:asc"}
	mkq := lk.Op{Kind: "createpool", Pool: "q", Key: "k:asc"}
	l1 := ld("p", "main", `{k:1,v:"a"}`)
	l2 := ld("p", "main", `{k:2,v:"b"}`)
	la := ld("p", "main", `{k:10,v:"A"}`)
	lb := ld("p", "main", `{k:20,v:"B"}`)
	lc := ld("p", "main", `{k:30,v:"C"}`)
	mkb := lk.Op{Kind: "createbranch", Pool: "p", Branch: "main", Name: "b", At: -1}
	mkc := lk.Op{Kind: "createbranch", Pool: "p", Branch: "main", Name: "c", At: -1}
	del0 := lk.Op{Kind: "delete", Pool: "p", Branch: "main", Idx: []int{0}}
	del1 := lk.Op{Kind: "delete", Pool: "p", Branch: "main", Idx: []int{1}}
	cmp := lk.Op{Kind: "compact", Pool: "p", Branch: "main", Idx: []int{0, 1}}
	mrgb := lk.Op{Kind: "merge", Pool: "p", Branch: "main", Name: "b"}
	mrgc := lk.Op{Kind: "merge", Pool: "p", Branch: "main", Name: "c"}
	rev0 := lk.Op{Kind: "revert", Pool: "p", Branch: "main", Idx: []int{0}}
	av0 := lk.Op{Kind: "addvec", Pool: "p", Branch: "main", Idx: []int{0}}
	dw := lk.Op{Kind: "deletewhere", Pool: "p", Branch: "main", Name: "k==1"}
	two := func(name string, setup []lk.Op, a, b lk.Op, quick bool) []concScenario {
		var out []concScenario
		for _, m := range []string{"atomic", "file"} {
			heavy := name == "delete||delete-same" || name == "delete||compact" || (name == "load||delete" && m == "file")
			out = append(out, concScenario{Name: name, Mode: m, Setup: setup, Clients: [][]lk.Op{{a}, {b}}, Bound: -1, Quick: quick, Heavy: heavy})
		}
		return out
	}
	var scs []concScenario
	add := func(s []concScenario) { scs = append(scs, s...) }
	add(two("load||load", []lk.Op{mkp, l1}, la, lb, true))
	add(two("load||load-first-commit", []lk.Op{mkp}, la, lb, false))
	add(two("load||delete", []lk.Op{mkp, l1, l2}, la, del0, true))
	add(two("delete||delete-same", []lk.Op{mkp, l1, l2}, del0, del0, true))
	add(two("delete||delete-other", []lk.Op{mkp, l1, l2}, del0, del1, false))
	add(two("load||compact", []lk.Op{mkp, l1, l2}, la, cmp, false))
	add(two("delete||compact", []lk.Op{mkp, l1, l2}, del0, cmp, true))
	add(two("load||merge", []lk.Op{mkp, l1, mkb, ld("p", "b", `{k:7,v:"x"}`)}, la, mrgb, true))
	add(two("merge||merge", []lk.Op{mkp, l1, mkb, mkc, ld("p", "b", `{k:7,v:"x"}`), ld("p", "c", `{k:8,v:"y"}`)}, mrgb, mrgc, false))
	add(two("load||revert", []lk.Op{mkp, l1, l2}, la, rev0, false))
	add(two("addvec||delete", []lk.Op{mkp, l1, l2}, av0, del0, false))
	add(two("deletewhere||load", []lk.Op{mkp, l1, l2}, dw, la, false))
	add(two("createpool||createpool-same-name", nil, mkp, mkp, true))
	add(two("createpool||createpool-different", nil, mkp, mkq, false))
	add(two("renamepool||renamepool-same-target", []lk.Op{mkp, mkq}, lk.Op{Kind: "renamepool", Pool: "p", Name: "r"}, lk.Op{Kind: "renamepool", Pool: "q", Name: "r"}, true))
	add(two("renamepool||createpool-target", []lk.Op{mkp}, lk.Op{Kind: "renamepool", Pool: "p", Name: "q"}, mkq, false))
	add(two("createbranch||createbranch-same", []lk.Op{mkp, l1}, mkb, mkb, true))
	add(two("droppool||load", []lk.Op{mkp, l1}, lk.Op{Kind: "droppool", Pool: "p"}, la, true))
	add(two("dropbranch||load", []lk.Op{mkp, l1, mkb}, lk.Op{Kind: "dropbranch", Pool: "p", Branch: "b"}, ld("p", "b", `{k:7,v:"x"}`), true))
	add(two("droppool||droppool", []lk.Op{mkp, l1}, lk.Op{Kind: "droppool", Pool: "p"}, lk.Op{Kind: "droppool", Pool: "p"}, false))
	// two operations per client
	for _, m := range []string{"atomic", "file"} {
		scs = append(scs, concScenario{Name: "load,load||load,delete", Mode: m, Setup: []lk.Op{mkp, l1}, Clients: [][]lk.Op{{la, lb}, {lc, del0}}, Bound: 2, Quick: false})
	}
	// three clients
	for _, m := range []string{"atomic", "file"} {
		scs = append(scs,
			concScenario{Name: "load||load||load", Mode: m, Setup: []lk.Op{mkp, l1}, Clients: [][]lk.Op{{la}, {lb}, {lc}}, Bound: 2, Quick: m == "atomic", Heavy: true},
			concScenario{Name: "rename||rename||create-chain", Mode: m, Setup: []lk.Op{mkp},
				Clients: [][]lk.Op{{{Kind: "renamepool", Pool: "p", Name: "t"}}, {{Kind: "renamepool", Pool: "p", Name: "u"}}, {mkp}}, Bound: 2, Quick: m == "atomic"},
			concScenario{Name: "load||delete||compact", Mode: m, Setup: []lk.Op{mkp, l1, l2}, Clients: [][]lk.Op{{la}, {del0}, {cmp}}, Bound: 2, Quick: false},
		)
	}
	return scs
}

func TestC12(t *testing.T) {
	run := rep.Start("C12", "model_checking")
	defer run.Finish(t)
	runConc(t, run, c12Scenarios(), 3*time.Minute, 45*time.Minute)
	run.Assume("clients are separate lake handles on one storage engine, each with its own caches, as separate processes are")
	run.Assume("scheduling points are the storage operations (every engine call; under file semantics also every Write call and every Read of an in-place-rewritten path); code between two storage operations of a client runs atomically")
	run.Assume("the sequential specification is the real code run one operation at a time in every order consistent with program order")
	run.Assume("Go map iteration order inside the lake code is not enumerated; replays that diverge are reported under nondeterministic_scenarios, never as violations")
}

// runConc explores the scenarios (sharded over child processes when
// VERIF_SHARDS>1) and folds the results into run.
func runConc(t *testing.T, run *rep.Run, scs []concScenario, quickBudget, thoroughBudget time.Duration) {
	deadline := rep.Deadline(quickBudget, thoroughBudget)
	confTraces, mismatch, err := vstoreConformance(3)
	if err != nil || mismatch != "" {
		t.Fatalf("HARNESS-ERROR: vstore conformance: %v %s", err, mismatch)
	}
	var selected []concScenario
	for _, sc := range scs {
		if rep.Thorough() || sc.Quick {
			if b, err := strconv.Atoi(os.Getenv("VERIF_BOUND")); err == nil {
				sc.Bound = b
			} else if !rep.Thorough() {
				// quick tier: all schedules with at most 2 preemptions (1 for
				// the scenarios whose 2-preemption space takes minutes)
				if sc.Bound < 0 || sc.Bound > 2 {
					sc.Bound = 2
				}
				if sc.Heavy {
					sc.Bound = 1
				}
			}
			selected = append(selected, sc)
		}
	}
	only := os.Getenv("VERIF_SCENARIO")
	maxExecs, _ := strconv.Atoi(os.Getenv("VERIF_MAX_EXECS"))
	results := runShards(t, selected, only, deadline, maxExecs)
	var states, transitions, execs, complete, images int64
	exhaustive := true
	var nondet []string
	var capped []string
	for _, r := range results {
		states += int64(r.States)
		transitions += int64(r.Transitions)
		execs += int64(r.Execs)
		complete += int64(r.Complete)
		images += int64(r.Images)
		if r.CapHit {
			exhaustive = false
			capped = append(capped, r.Scenario.Name+"/"+r.Scenario.Mode)
		}
		if len(r.Diverged) > 0 {
			nondet = append(nondet, fmt.Sprintf("%s/%s: %d diverging replays, e.g. %s", r.Scenario.Name, r.Scenario.Mode, len(r.Diverged), pathClass(r.Diverged[0])))
		}
		for k := range r.Outcomes {
			run.Distinct(r.Scenario.Name + "/" + r.Scenario.Mode + "/" + k)
		}
		for _, v := range r.Violations {
			run.Violation(v.Signature, v.Detail)
		}
		bound := "unbounded"
		if r.Scenario.Bound >= 0 {
			bound = fmt.Sprint(r.Scenario.Bound)
		}
		run.MaxSamples = 200
		run.Sample(map[string]any{
			"scenario": r.Scenario.Name, "mode": r.Scenario.Mode, "preemption_bound": bound,
			"executions": r.Execs, "complete": r.Complete, "states": r.States, "transitions": r.Transitions,
			"max_depth": r.MaxDepth, "distinct_outcomes": len(r.Outcomes), "storage_images_audited": r.Images,
			"sequential_orders": r.SeqOrders, "cap_hit": r.CapHit, "example": r.Sample,
			"executions_with_failures_only_explained_as_no_ops": r.UnexplainedFailures,
		})
	}
	run.Set("states", states)
	run.Set("transitions", transitions)
	run.Set("evaluations", execs)
	run.Set("complete_executions", complete)
	run.Set("storage_images_audited", images)
	run.Set("traces_validated_against_impl", int64(confTraces)+complete)
	run.Set("scenarios", len(results))
	run.Set("exhaustive", exhaustive)
	run.Set("scenarios_capped", capped)
	run.Set("nondeterministic_scenarios", nondet)
	run.Set("explanation", "every explored trace is an execution of the real lake code under the controlled scheduler (no separate model); traces_validated_against_impl = complete executions checked against the sequential runs of the real code + op-sequence traces of the storage engine compared with the real storage.FileSystem")
	run.Set("rule", "per scenario: DFS over all choices of which parked storage operation runs next (preemption bound as listed; unbounded scenarios are closed by exact state memoisation: storage image + per-client observation history + fake clock). distinct = distinct (per-operation results, final contents) outcomes observed")
}
