package checks

import (
	"bytes"
	"context"
	"fmt"
	"os"
	"strings"
	"sync"
	"testing"

	zed "github.com/brimdata/super"
	"github.com/brimdata/super/compiler"
	"github.com/brimdata/super/runtime"
	"github.com/brimdata/super/zbuf"
	"github.com/brimdata/super/zio"
	"github.com/brimdata/super/zio/vngio"
	"github.com/brimdata/super/zio/zjsonio"
	"github.com/brimdata/super/zio/zngio"
	"github.com/brimdata/super/zio/zsonio"
	"github.com/brimdata/super/zson"

	"verif/lk"
	"verif/rep"
)

// ---- C04: query results do not depend on the physical encoding of the input -----------

type c04Encoding struct {
	name string
	// open returns a reader of vals in this encoding (types into zctx)
	open func(zctx *zed.Context, vals []zed.Value) (zio.Reader, error)
}

func c04Encodings() []c04Encoding {
	encs := []c04Encoding{
		{"zson", func(zctx *zed.Context, vals []zed.Value) (zio.Reader, error) {
			var b strings.Builder
			for _, v := range vals {
				b.WriteString(zson.FormatValue(v))
				b.WriteByte('\n')
			}
			return zsonio.NewReader(zctx, strings.NewReader(b.String())), nil
		}},
		{"zjson", func(zctx *zed.Context, vals []zed.Value) (zio.Reader, error) {
			var buf bytes.Buffer
			w := zjsonio.NewWriter(nopCloser{&buf})
			for _, v := range vals {
				if err := w.Write(v); err != nil {
					return nil, err
				}
			}
			if err := w.Close(); err != nil {
				return nil, err
			}
			return zjsonio.NewReader(zctx, bytes.NewReader(buf.Bytes())), nil
		}},
		{"vng", func(zctx *zed.Context, vals []zed.Value) (zio.Reader, error) {
			b, err := vngWrite(vals)
			if err != nil {
				return nil, err
			}
			return vngio.NewReader(zctx, bytes.NewReader(b), nil)
		}},
	}
	for _, compress := range []bool{false, true} {
		for _, thresh := range []int{1, 64, zngio.DefaultFrameThresh} {
			for _, eos := range []bool{false, true} {
				for _, threads := range []int{1, 2} {
					for _, size := range []int{0, 1} {
						compress, thresh, eos, threads, size := compress, thresh, eos, threads, size
						if size == 1 && thresh != 1 {
							continue
						}
						name := fmt.Sprintf("zng(compress=%v,frame=%d,eos-between-values=%v,threads=%d,readsize=%d)", compress, thresh, eos, threads, size)
						encs = append(encs, c04Encoding{name, func(zctx *zed.Context, vals []zed.Value) (zio.Reader, error) {
							cfg := zngWriteCfg{Compress: compress, Thresh: thresh}
							if eos {
								cfg.EOS = ^uint(0)
							}
							b, err := zngWrite(vals, cfg)
							if err != nil {
								return nil, err
							}
							return zngio.NewReaderWithOpts(zctx, bytes.NewReader(b), zngio.ReaderOpts{Threads: threads, Size: size}), nil
						}})
					}
				}
			}
		}
	}
	return encs
}

var c04Inputs = map[string]string{
	// the searched token "foo" occurs as a value, only as a field name, inside array/map/union-wrapped records, in a type value, in a named type
	"token-as-value":      `{a:"foo",n:1} {a:"bar",n:2} {a:"xfoox",n:3} {a:"FOO",n:4}`,
	"token-as-field-name": `{foo:1,n:1} {bar:{foo:2},n:2} {a:"x",n:3}`,
	"token-in-containers": `{l:[{foo:1}],n:1} {m:|{"k":{foo:2}}|,n:2} {u:{foo:3}(({foo:int64},string)),n:3} {l:["foo"],n:4} {s:|["foo","bar"]|,n:5} {l:[1,2],n:6}`,
	"token-in-type-value": `{t:<{foo:int64}>,n:1} {t:<string>,n:2} {t:<foo=int64>,n:3}`,
	"token-in-named-type": `{a:1(foo=int64),n:1} {a:2,n:2} {a:{b:1}(=foo),n:3}`,
	"numbers-and-nulls":   `{a:1,b:2.5,n:1} {a:null(int64),b:1.,n:2} {a:3,n:3} {a:"1",n:4} {a:1(uint8),n:5}`,
	"ips-and-nets":        `{a:10.0.0.1,n:1} {a:10.0.0.0/8,n:2} {a:"10.0.0.1",n:3} {a:::1,n:4}`,
	"mixed-shapes":        `{a:"foo"} 7 "foo" [1,"foo"] {a:{b:"foo"}} null {a:error("foo")}`,
}

func c04Programs() []struct {
	src     string
	ordered bool
} {
	var out []struct {
		src     string
		ordered bool
	}
	add := func(ordered bool, ss ...string) {
		for _, s := range ss {
			out = append(out, struct {
				src     string
				ordered bool
			}{s, ordered})
		}
	}
	// filters and searches (pushed into the binary scanner as buffer filter + evaluator)
	atoms := []string{`search foo`, `search "foo"`, `search fo*`, `search *oo`, `a=="foo"`, `"foo" in l`, `"foo" in s`, `grep(/fo+/, a)`, `grep("foo")`, `search foo or bar`, `n>1`, `a==1`, `a==10.0.0.1`, `cidr_match(10.0.0.0/8, a)`, `has(foo)`, `a==null`}
	for _, a := range atoms {
		add(true, "where "+a)
	}
	for i, a := range atoms {
		for j, b := range atoms {
			if (i+2*j)%5 == 0 {
				add(true, "where ("+a+") and ("+b+")", "where ("+a+") or ("+b+")", "where not ("+a+") and ("+b+")")
			}
		}
	}
	// type functions and shaping
	add(true, `yield typeof(this)`, `yield typeof(a)`, `yield len(this)`, `yield len(l)`, `yield is(a, <string>)`, `yield is(<foo>)`, `yield under(a)`, `yield under(this)`, `yield nameof(a)`, `yield nameof(this)`, `yield fields(this)`,
		`yield kind(a)`, `cut a`, `put x:=typeof(this)`, `yield shape(this, <{a:string,n:int64}>)`, `where typeof(a)==<string>`, `where is(a, <int64>)`, `search foo | yield typeof(this)`, `fuse`)
	add(false, `count()`, `count() by typeof(this)`, `summarize collect(a) by typeof(a)`, `union(typeof(a))`, `search foo | count()`, `summarize fuse(this)`)
	return out
}

func TestC04(t *testing.T) {
	run := rep.Start("C04", "exploration")
	defer run.Finish(t)
	ctx := context.Background()
	encs := c04Encodings()
	progs := c04Programs()
	var mu sync.Mutex
	// every input also in reverse order (what a reader caches about an earlier stream or
	// frame must not leak into a later one, whichever comes first)
	for n, text := range c04Inputs {
		if strings.HasSuffix(n, "(reversed)") {
			continue
		}
		vals, err := readAll(zsonio.NewReader(zed.NewContext(), strings.NewReader(text)))
		if err != nil {
			t.Fatalf("harness input %s: %v", n, err)
		}
		var b strings.Builder
		for i := len(vals) - 1; i >= 0; i-- {
			b.WriteString(zson.FormatValue(vals[i]))
			b.WriteByte(' ')
		}
		c04Inputs[n+" (reversed)"] = b.String()
	}
	var names []string
	for n := range c04Inputs {
		names = append(names, n)
	}
	sortStrings(names)
	type job struct {
		in   string
		prog int
	}
	var jobs []job
	for _, in := range names {
		for pi := range progs {
			jobs = append(jobs, job{in, pi})
		}
	}
	var runs int64
	parallel(len(jobs), func(ji int) {
		j := jobs[ji]
		p := progs[j.prog]
		refCtx := zed.NewContext()
		vals, err := readAll(zsonio.NewReader(refCtx, strings.NewReader(c04Inputs[j.in])))
		if err != nil {
			t.Errorf("harness input %s: %v", j.in, err)
			return
		}
		exec := func(zctx *zed.Context, r zio.Reader) (out []string, err error) {
			defer func() {
				if pn := recover(); pn != nil {
					err = fmt.Errorf("PANIC: %v", pn)
				}
			}()
			seq, sset, err := compiler.Parse(p.src)
			if err != nil {
				return nil, err
			}
			q, err := runtime.CompileQuery(ctx, zctx, compiler.NewCompiler(), seq, sset, []zio.Reader{r})
			if err != nil {
				return nil, err
			}
			defer q.Pull(true)
			return lk.Drain(q)
		}
		want, werr := exec(refCtx, zbuf.NewArray(vals))
		for _, enc := range encs {
			zctx := zed.NewContext()
			r, err := enc.open(zctx, vals)
			if err != nil {
				continue // this encoding cannot carry the input (stated per encoding in the evidence)
			}
			got, gerr := exec(zctx, r)
			if c, ok := r.(interface{ Close() error }); ok {
				c.Close()
			}
			mu.Lock()
			runs++
			run.Eval(j.in + "|" + p.src + "|" + enc.name)
			mu.Unlock()
			encClass := strings.Split(enc.name, "(")[0]
			switch {
			case werr != nil && gerr != nil:
			case (werr == nil) != (gerr == nil):
				mu.Lock()
				run.Violation(fmt.Sprintf("symptom=only-one-encoding-fails encoding=%s prog=%s", encClass, c04Shape(p.src)),
					map[string]any{"input": j.in, "program": p.src, "encoding": enc.name, "reference_error": fmt.Sprint(werr), "encoding_error": fmt.Sprint(gerr)})
				mu.Unlock()
			default:
				same := sameMultiset(want, got)
				if same && p.ordered {
					same = strings.Join(want, "\n") == strings.Join(got, "\n")
				}
				if !same {
					mu.Lock()
					run.Violation(fmt.Sprintf("symptom=result-depends-on-encoding encoding=%s prog=%s", encClass, c04Shape(p.src)),
						map[string]any{"input": j.in, "program": p.src, "encoding": enc.name, "reference": want, "got": got})
					mu.Unlock()
				}
			}
		}
	})
	run.Set("query_runs", runs)
	run.Sample(map[string]any{"inputs": names, "programs": len(progs), "encodings": len(encs), "example_encoding": encs[len(encs)/2].name, "example_program": progs[len(progs)/3].src})
	run.Set("exhaustive", true)
	run.Set("rule", "programs: 16 filter/search atoms (keyword, quoted, globs, field==literal, literal in field, regexp, grep, numeric/ip/cidr comparisons, has, ==null), their and/or/not combinations (every fifth pair), type functions (typeof, len, is, under, nameof, fields, kind), shaping (cut, put, shape, fuse) and aggregations; inputs: 8 curated sequences, each also in reverse order, in which the searched token occurs as a value, only as a field name, only inside array/map/union-wrapped records, only in a type value, only in a named type, plus numeric/null, ip/net and mixed-shape inputs; encodings: in-memory reference (zbuf.Array), ZSON, ZJSON, VNG, and ZNG with compress x frame threshold {1,64,default} x end-of-stream between values x threads {1,2} x read size {default,1}. Each program's output on each encoding must equal its output on the in-memory reference (sequence for order-preserving programs, multiset for aggregations)")
	if os.Getenv("VERIF_POISON") == "1" {
		run.Set("adversarial_buffer_pool", "zngio frame buffers are overwritten with 0xdb when released (build overlay of zio/zngio/buffer.go generated from the working tree)")
	} else {
		run.Assume("the adversarial buffer pool overlay could not be applied to this tree's zio/zngio/buffer.go; recycling happens only through the real sync.Pool")
	}
}

func c04Shape(src string) string {
	f := strings.Fields(src)
	if len(f) == 0 {
		return ""
	}
	s := f[0]
	if s == "where" || s == "yield" || s == "search" {
		rest := strings.Join(f[1:], " ")
		for _, k := range []string{"search", "grep", " in ", "cidr_match", "has(", "typeof", "is(", "under", "nameof", "fields", "kind", "len", "shape", "==null", "=="} {
			if strings.Contains(" "+rest, k) || strings.Contains(src, k) {
				return s + ":" + strings.TrimSpace(k)
			}
		}
	}
	return s
}

func sortStrings(s []string) {
	for i := 1; i < len(s); i++ {
		for j := i; j > 0 && s[j-1] > s[j]; j-- {
			s[j-1], s[j] = s[j], s[j-1]
		}
	}
}
