package checks

import (
	"context"
	"encoding/json"
	"fmt"
	"math/rand"
	"os"
	"os/exec"
	"runtime"
	"strconv"
	"strings"
	"sync"
	"testing"
	"time"

	zed "github.com/brimdata/super"
	"github.com/brimdata/super/zson"

	"verif/lk"
	"verif/rep"
	"verif/vsched"
	"verif/vstore"
)

// ---- C08: lake query results are independent of the degree of parallelism ---------

type c08Prog struct {
	src   string
	order string // "key": output in pool-key order (compare key sequences); "sort:<field>": explicitly sorted; "": multiset only
}

func c08Programs() []c08Prog {
	k := func(s string) c08Prog { return c08Prog{s, "key"} }
	m := func(s string) c08Prog { return c08Prog{s, ""} }
	return []c08Prog{
		k(`pass`), k(`where a==1`), k(`where k>1`), k(`where k>=2 and a==1`), k(`search x`), k(`cut k,a`), k(`put b:=a+1`), k(`drop a`), k(`yield {k,a}`),
		k(`where a==1 | put b:=1`), k(`cut k | where k>1`),
		{`sort a`, "sort:a"}, {`sort -r k`, "sort:k"}, {`sort k`, "sort:k"}, {`where a==1 | sort k desc`, "sort:k"},
		m(`count()`), m(`sum(a)`), m(`summarize count() by k`), m(`summarize s:=sum(a), c:=count() by k`), m(`summarize min(a), max(a) by s`), m(`summarize avg(a) by k`),
		m(`summarize union(a) by k`), m(`summarize dcount(a) by s`), m(`summarize and(a>0), or(a>1) by k`), m(`count() by k | sort k`), m(`where a==1 | count()`),
		m(`summarize count() by a | where count>1`), m(`put b:=a+1 | summarize sum(b) by k`), m(`cut k | summarize count() by k`),
		m(`fork (=> where a==1 | count() => where a==2 | count())`), m(`summarize c:=count() by k | summarize sum(c)`),
		m(`head 1 | count()`), m(`tail 1 | count()`), m(`uniq -c | count()`),
		// groups keyed on an order-preserving function of the pool key: a group can span
		// objects that different scan workers read (indices 34..36, used by the controlled part)
		m(`summarize count() by k:=floor(k)`), m(`summarize c:=count(), s:=sum(a) by k:=round(k)`), m(`summarize count() by k:=ceil(k) | sort k`),
		// a sort on a field other than the pool key is lifted into the scan legs and merged back (index 37)
		{`sort x`, "sort:x"},
	}
}

type c08Pool struct {
	name string
	ops  []lk.Op
}

func c08Pools() []c08Pool {
	b1 := `{k:1,a:1,s:"x"} {k:2,a:2,s:"y"} {k:2,a:1,s:"x"} {k:3,a:null(int64),s:"z"} {k:5,a:2,s:"x"}`
	b2 := `{k:2,a:1,s:"x"} {k:4,a:3,s:"y"} {k:"s",a:2} {k:null(int64),a:1} {a:1,s:"x"} {k:1.5,a:1,s:"x"}`
	b3 := `{k:6,a:1,s:"x"} {k:7,a:2,s:"y"} {k:1,a:1,s:"x"}`
	var out []c08Pool
	for _, ord := range []string{"asc", "desc"} {
		out = append(out,
			c08Pool{"many-small-objects " + ord, []lk.Op{{Kind: "createpool", Pool: "p", Key: "k:" + ord, Thresh: 1, Stride: 1}, ld("p", "main", b1), ld("p", "main", b2), ld("p", "main", b3)}},
			c08Pool{"three-overlapping-objects " + ord, []lk.Op{{Kind: "createpool", Pool: "p", Key: "k:" + ord}, ld("p", "main", b1), ld("p", "main", b2), ld("p", "main", b3)}},
		)
	}
	// disjoint objects whose keys share floor/round/ceil buckets across object boundaries
	d1, d2, d3 := `{k:1.1,a:1,s:"x"} {k:1.2,a:2,s:"y"}`, `{k:1.6,a:1,s:"x"} {k:2.4,a:3,s:"y"}`, `{k:2.6,a:2,s:"x"} {k:3.1,a:1,s:"z"} {k:3.2,a:1,s:"z"}`
	for _, ord := range []string{"asc", "desc"} {
		out = append(out, c08Pool{"disjoint-objects-sharing-buckets " + ord, []lk.Op{{Kind: "createpool", Pool: "p", Key: "k:" + ord}, ld("p", "main", d1), ld("p", "main", d2), ld("p", "main", d3)}})
	}
	// disjoint objects whose values of another field interleave across objects, so that a merge of
	// the legs' sorted outputs has to alternate between three legs
	x1, x2, x3 := `{k:1,x:0,a:1} {k:2,x:10,a:1}`, `{k:3,x:20,a:1} {k:4,x:30,a:1}`, `{k:5,x:5,a:1} {k:6,x:15,a:1}`
	for _, ord := range []string{"asc", "desc"} {
		out = append(out, c08Pool{"disjoint-objects-interleaving-field " + ord, []lk.Op{{Kind: "createpool", Pool: "p", Key: "k:" + ord}, ld("p", "main", x1), ld("p", "main", x2), ld("p", "main", x3)}})
	}
	return out
}

func c08Keys(vals []zed.Value, fld string) []string {
	out := make([]string, len(vals))
	for i, v := range vals {
		if zed.TypeUnder(v.Type()).Kind() != zed.RecordKind {
			out[i] = "(not a record)"
			continue
		}
		if f := v.Deref(fld); f != nil {
			out[i] = zson.FormatValue(*f)
		} else {
			out[i] = "(missing)"
		}
	}
	return out
}

// c08Same compares a run with the parallelism-1 reference.
func c08Same(p c08Prog, ref, got []zed.Value) string {
	if !sameMultiset(formatAll(ref), formatAll(got)) {
		return "different-values"
	}
	fld := ""
	switch {
	case p.order == "key":
		fld = "k"
	case strings.HasPrefix(p.order, "sort:"):
		fld = p.order[5:]
	}
	if fld != "" && strings.Join(c08Keys(ref, fld), ",") != strings.Join(c08Keys(got, fld), ",") {
		return "different-order"
	}
	return ""
}

func TestC08(t *testing.T) {
	run := rep.Start("C08", "exploration")
	defer run.Finish(t)
	ctx := context.Background()
	deadline := rep.Deadline(4*time.Minute, 45*time.Minute)
	var mu sync.Mutex
	report := func(sig string, d map[string]any) {
		mu.Lock()
		run.Violation(sig, d)
		mu.Unlock()
	}
	progs := c08Programs()
	pools := c08Pools()
	pars := []int{2, 3, 8, 16}
	repeats := 1
	if rep.Thorough() {
		repeats = 3
	}
	var cases int64
	for _, pool := range pools {
		st, err := buildSetup(ctx, vstore.Atomic, pool.ops, true)
		if err != nil {
			t.Fatal(err)
		}
		pool := pool
		parallel(len(progs), func(pi int) {
			p := progs[pi]
			src := "from p | " + p.src
			l, err := lk.Open(ctx, lk.NewEngine(st, "q", nil))
			if err != nil {
				t.Error(err)
				return
			}
			ref, rerr := lakeQueryVals(ctx, l, src, true, 1)
			for _, n := range pars {
				for r := 0; r < repeats; r++ {
					got, gerr := lakeQueryVals(ctx, l, src, true, n)
					mu.Lock()
					cases++
					run.Eval(fmt.Sprintf("%s/%s/par=%d", pool.name, p.src, n))
					mu.Unlock()
					if (rerr == nil) != (gerr == nil) {
						report(fmt.Sprintf("parallel symptom=only-one-degree-fails prog=%s", c07Shape(p.src)), map[string]any{"pool": pool.name, "program": src, "parallelism": n, "error_at_1": fmt.Sprint(rerr), "error_at_n": fmt.Sprint(gerr)})
						continue
					}
					if rerr != nil {
						continue
					}
					if s := c08Same(p, ref, got); s != "" {
						report(fmt.Sprintf("parallel symptom=%s prog=%s", s, c07Shape(p.src)),
							map[string]any{"pool": pool.name, "program": src, "parallelism": n, "at_1": formatAll(ref), "at_n": formatAll(got)})
					}
				}
			}
		})
	}
	run.Set("free_running_cases", cases)
	run.Sample(map[string]any{"part": "free-running degrees", "programs": len(progs), "pools": len(pools), "parallelism": pars, "repeats": repeats, "example": progs[len(progs)/2].src})
	// ---- controlled schedules of the scan workers (storage-read gates) ------------------
	type sc struct {
		Pool int
		Prog int
		Par  int
	}
	var scs []sc
	for _, pi := range []int{0, 1, 13, 17, 18, 22} {
		for _, pl := range []int{0, 1} {
			scs = append(scs, sc{pl, pi, 2})
			if rep.Thorough() {
				scs = append(scs, sc{pl, pi, 3}, sc{pl + 2, pi, 2})
			}
		}
	}
	for _, pi := range []int{34, 35, 17} {
		for _, pl := range []int{4, 5} {
			scs = append(scs, sc{pl, pi, 2})
			if rep.Thorough() {
				scs = append(scs, sc{pl, pi, 3})
			}
		}
	}
	// three scan workers over three disjoint objects: programs whose sort is lifted into the
	// legs and merged back (merge of three legs whose outputs interleave)
	for _, pi := range []int{37, 11, 12} {
		for _, pl := range []int{6, 7} {
			scs = append(scs, sc{pl, pi, 3})
		}
	}
	tmp, err := os.MkdirTemp("", "verif-c08-")
	if err != nil {
		t.Fatal(err)
	}
	defer os.RemoveAll(tmp)
	var wg sync.WaitGroup
	sem := make(chan struct{}, runtime.NumCPU())
	var states, transitions, execs int64
	exhaustive := true
	for i, s := range scs {
		i, s := i, s
		wg.Add(1)
		go func() {
			defer wg.Done()
			sem <- struct{}{}
			defer func() { <-sem }()
			out := fmt.Sprintf("%s/%d.json", tmp, i)
			spec, _ := json.Marshal(s)
			cmd := exec.Command(os.Args[0], "-test.run", "^TestC08Child$", "-test.timeout", "0")
			cmd.Env = append(os.Environ(), "VERIF_C08_SPEC="+string(spec), "VERIF_C08_OUT="+out, "VERIF_C08_DEADLINE="+strconv.FormatInt(deadline.UnixNano(), 10), "GOMAXPROCS=1")
			b, err := cmd.CombinedOutput()
			data, rerr := os.ReadFile(out)
			if rerr != nil {
				mu.Lock()
				fmt.Println("HARNESS-ERROR: c08 child:", err, tail(string(b), 2000))
				mu.Unlock()
				t.Errorf("c08 child failed")
				return
			}
			var r c08SchedResult
			json.Unmarshal(data, &r)
			mu.Lock()
			states += int64(r.States)
			transitions += int64(r.Transitions)
			execs += int64(r.Execs)
			if r.CapHit {
				exhaustive = false
			}
			for _, v := range r.Violations {
				run.Violation(v.Sig, v.Detail)
			}
			run.MaxSamples = 40
			run.Sample(map[string]any{"part": "controlled schedules", "pool": pools[s.Pool].name, "program": progs[s.Prog].src, "parallelism": s.Par, "executions": r.Execs, "complete": r.Complete, "deviation_bound": r.Bound, "cap_hit": r.CapHit, "distinct_output_orders": r.Outcomes, "nondeterministic_replays": r.Diverged})
			mu.Unlock()
		}()
	}
	wg.Wait()
	run.Set("scheduled_executions", execs)
	run.Set("scheduled_states", states)
	run.Set("scheduled_transitions", transitions)
	run.Set("evaluations", cases+execs)
	run.Set("exhaustive", exhaustive)
	run.Set("rule", "free-running: 38 programs after 'from p' (order-preserving operators, sorts, aggregations incl. those decomposed into partials, fork, head/tail/uniq under count) x 8 pools (many one-value objects / three overlapping objects / three disjoint objects whose float keys share floor, round and ceil buckets across object boundaries / three disjoint objects whose values of another field interleave; ascending / descending, with null, missing and mixed-type keys, duplicate keys across objects) x parallelism {2,3,8,16} (thorough 3 repeats) compared with parallelism 1: same multiset, and the same key sequence where the program defines an order. Controlled schedules: for 6 representative programs x the overlapping pools 3 grouping programs x the disjoint pools, and 3 sorting programs x the interleaving-field pools with three scan workers, the parallel query runs in a synctest bubble with every storage read of every scan worker as a gate; all schedules within a bound of deviations from first-in-canonical-order are executed and each compared with parallelism 1")
	run.Assume("goroutine schedules are controlled at storage reads only (which worker obtains which object and the arrival order at combine/merge follow from them); preemption inside the runtime's channel operations is exercised by the free-running runs, not enumerated")
}

type c08SchedResult struct {
	Execs, Complete, States, Transitions, Bound, Outcomes, Diverged int
	CapHit                                                          bool
	Violations                                                      []hViolation
}

func TestC08Child(t *testing.T) {
	specS := os.Getenv("VERIF_C08_SPEC")
	if specS == "" {
		t.Skip("child-only")
	}
	var s struct{ Pool, Prog, Par int }
	json.Unmarshal([]byte(specS), &s)
	ns, _ := strconv.ParseInt(os.Getenv("VERIF_C08_DEADLINE"), 10, 64)
	ctx := context.Background()
	installIDs()
	pool := c08Pools()[s.Pool]
	prog := c08Programs()[s.Prog]
	src := "from p | " + prog.src
	var st *vstore.Store
	var ref []zed.Value
	bubble(t, func() {
		vsched.SetCurrent(-1)
		idReader.Reset()
		var err error
		st, err = buildSetup(ctx, vstore.Atomic, pool.ops, true)
		if err != nil {
			t.Fatal(err)
		}
		l, _ := lk.Open(ctx, lk.NewEngine(st, "ref", nil))
		ref, err = lakeQueryVals1(ctx, l, src, true, 1)
		if err != nil {
			t.Fatalf("reference: %v", err)
		}
	})
	res := c08SchedResult{Bound: 2}
	outcomes := map[string]bool{}
	var got []zed.Value
	var gerr error
	ex := &vsched.Explorer{Bound: res.Bound, Deadline: time.Unix(0, ns), MaxExecs: 4000}
	ex.RunOne = func(prefix []int, expect []vsched.Point, visit func(uint64, int) bool) *vsched.Exec {
		var x *vsched.Exec
		bubble(t, func() {
			rand.Seed(1)
			idReader.Reset()
			sched := vsched.NewSched([]string{"q"})
			eng := lk.NewEngine(st, "q", nil)
			l, err := lk.Open(ctx, eng)
			if err != nil {
				t.Fatal(err)
			}
			eng.Hook = sched.Hook()
			client := vsched.Client{Name: "q", Desc: []string{src}, Ops: []func() string{func() string {
				got, gerr = lakeQueryVals1(ctx, l, src, true, s.Par)
				return ""
			}}}
			x = vsched.Run(sched, []vsched.Client{client}, vsched.Options{Prefix: prefix, Expect: expect, IntraClientCost: true,
				Visit:    func(key uint64, used int) bool { return true },
				AbortAll: func() { eng.Crash() }})
		})
		return x
	}
	ex.Check = func(x *vsched.Exec, choices []int) {
		if gerr != nil {
			res.Violations = append(res.Violations, hViolation{fmt.Sprintf("scheduled symptom=error prog=%s: %s", c07Shape(prog.src), errClass(gerr)), map[string]any{"pool": pool.name, "program": src, "parallelism": s.Par, "choices": choices}})
			return
		}
		outcomes[strings.Join(formatAll(got), "|")] = true
		if sym := c08Same(prog, ref, got); sym != "" {
			var sch []string
			for _, p := range x.Points {
				sch = append(sch, pathClass(p.Enabled[p.Chosen]))
			}
			res.Violations = append(res.Violations, hViolation{fmt.Sprintf("scheduled symptom=%s prog=%s", sym, c07Shape(prog.src)),
				map[string]any{"pool": pool.name, "program": src, "parallelism": s.Par, "choices": choices, "schedule": sch, "at_1": formatAll(ref), "under_schedule": formatAll(got)}})
		}
	}
	ex.Explore()
	res.Execs, res.Complete, res.States, res.Transitions, res.CapHit, res.Diverged = ex.Execs, ex.Complete, ex.States, ex.Transitions, ex.CapHit, len(ex.Diverged)
	for _, d := range ex.Deadlocks {
		res.Violations = append(res.Violations, hViolation{fmt.Sprintf("scheduled symptom=deadlock prog=%s", c07Shape(prog.src)), map[string]any{"pool": pool.name, "program": src, "choices": d}})
	}
	res.Outcomes = len(outcomes)
	b, _ := json.Marshal(res)
	os.WriteFile(os.Getenv("VERIF_C08_OUT"), b, 0o644)
}
