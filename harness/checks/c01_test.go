package checks

import (
	"bytes"
	"context"
	"fmt"
	"io"
	"sync/atomic"
	"testing"
	"time"

	zed "github.com/brimdata/super"
	"github.com/brimdata/super/zio/zngio"
	"github.com/brimdata/super/zson"

	"verif/gen"
	"verif/rep"
)

// ---- C01: ZNG binary stream round trip is the identity -------------------------

type zngWriteCfg struct {
	Compress bool
	Thresh   int
	EOS      uint // bit i set: EndStream after value i
}

type zngReadCfg struct {
	Threads  int
	Size     int
	Validate bool
	Scanner  bool   // use NewScanner/Pull instead of Read
	Source   string // "whole", "1byte", or "split@N"
}

func (c zngReadCfg) String() string {
	return fmt.Sprintf("threads=%d size=%d validate=%v scanner=%v source=%s", c.Threads, c.Size, c.Validate, c.Scanner, c.Source)
}

// oneByteReader delivers one byte per Read call; splitReader delivers the
// first n bytes, then the rest.
type chunkReader struct {
	b     []byte
	sizes func(off int) int
	off   int
}

func (r *chunkReader) Read(p []byte) (int, error) {
	if r.off >= len(r.b) {
		return 0, io.EOF
	}
	n := r.sizes(r.off)
	if n > len(p) {
		n = len(p)
	}
	if n > len(r.b)-r.off {
		n = len(r.b) - r.off
	}
	copy(p, r.b[r.off:r.off+n])
	r.off += n
	return n, nil
}

func zngWrite(vals []zed.Value, cfg zngWriteCfg) ([]byte, error) {
	var buf bytes.Buffer
	w := zngio.NewWriterWithOpts(nopCloser{&buf}, zngio.WriterOpts{Compress: cfg.Compress, FrameThresh: cfg.Thresh})
	for i, v := range vals {
		if err := w.Write(v); err != nil {
			return nil, err
		}
		if cfg.EOS&(1<<uint(i)) != 0 {
			if err := w.EndStream(); err != nil {
				return nil, err
			}
		}
	}
	if err := w.Close(); err != nil {
		return nil, err
	}
	return buf.Bytes(), nil
}

type nopCloser struct{ io.Writer }

func (nopCloser) Close() error { return nil }

func zngRead(b []byte, cfg zngReadCfg, zctx *zed.Context) (vals []zed.Value, err error) {
	defer func() {
		if p := recover(); p != nil {
			err = fmt.Errorf("PANIC: %v", p)
		}
	}()
	var src io.Reader = bytes.NewReader(b)
	switch {
	case cfg.Source == "1byte":
		src = &chunkReader{b: b, sizes: func(int) int { return 1 }}
	case len(cfg.Source) > 6 && cfg.Source[:6] == "split@":
		var n int
		fmt.Sscanf(cfg.Source[6:], "%d", &n)
		src = &chunkReader{b: b, sizes: func(off int) int {
			if off < n {
				return n - off
			}
			return len(b)
		}}
	}
	r := zngio.NewReaderWithOpts(zctx, src, zngio.ReaderOpts{Threads: cfg.Threads, Size: cfg.Size, Validate: cfg.Validate})
	defer r.Close()
	if cfg.Scanner {
		s, err := r.NewScanner(context.Background(), nil)
		if err != nil {
			return nil, err
		}
		for {
			batch, err := s.Pull(false)
			if err != nil {
				return vals, err
			}
			if batch == nil {
				return vals, nil
			}
			for _, v := range batch.Values() {
				vals = append(vals, v.Copy())
			}
			batch.Unref()
		}
	}
	return readAll(r)
}

func TestC01(t *testing.T) {
	run := rep.Start("C01", "exploration")
	defer run.Finish(t)
	deadline := rep.Deadline(3*time.Minute, 30*time.Minute)
	exhaustive := true
	// types drawn from two contexts: even-indexed values live in A, odd in B
	zA, zB := zed.NewContext(), zed.NewContext()
	uA, uB := universe(zA, rep.Thorough()), universe(zB, rep.Thorough())
	u := make([]gen.Value, len(uA))
	for i := range uA {
		if i%2 == 0 {
			u[i] = uA[i]
		} else {
			u[i] = uB[i]
		}
	}
	smallA, smallB := gen.Small(zA), gen.Small(zB)
	var wcfgs []zngWriteCfg
	for _, c := range []bool{false, true} {
		for _, th := range []int{1, 2, 7, 64, 1 << 20} {
			wcfgs = append(wcfgs, zngWriteCfg{Compress: c, Thresh: th})
		}
	}
	var rcfgs []zngReadCfg
	for _, th := range []int{1, 2, 3} {
		for _, size := range []int{1, 16, 0} {
			for _, val := range []bool{false, true} {
				for _, sc := range []bool{false, true} {
					rcfgs = append(rcfgs, zngReadCfg{Threads: th, Size: size, Validate: val, Scanner: sc, Source: "whole"})
				}
			}
		}
	}
	check := func(name string, vals []zed.Value, b []byte, w string, rc zngReadCfg) {
		run.Eval(name)
		for _, fresh := range []bool{true, false} {
			zctx := zA
			if fresh {
				zctx = zed.NewContext()
			}
			got, err := zngRead(b, rc, zctx)
			if err != nil {
				run.Violation(fmt.Sprintf("symptom=read-error threads=%d validate=%v scanner=%v source=%s: %s", rc.Threads, rc.Validate, rc.Scanner, srcClass(rc.Source), errClass(err)),
					map[string]any{"values": name, "writer": w, "reader": rc.String(), "error": err.Error(), "bytes": fmt.Sprintf("% x", b)})
				return
			}
			if i, ok := gen.SeqEq(vals, got); !ok {
				d := map[string]any{"values": name, "writer": w, "reader": rc.String(), "first_difference_at": i, "n_written": len(vals), "n_read": len(got)}
				if i < len(vals) && i < len(got) {
					d["written"], d["read"] = gen.Describe(vals[i]), gen.Describe(got[i])
				}
				run.Violation(fmt.Sprintf("symptom=sequence-changed threads=%d validate=%v scanner=%v source=%s", rc.Threads, rc.Validate, rc.Scanner, srcClass(rc.Source)), d)
				return
			}
		}
	}
	// (1) every universe value alone, every writer x reader configuration
	var past atomic.Bool
	parallel(len(u), func(vi int) {
		v := u[vi]
		if past.Load() || time.Now().After(deadline) {
			past.Store(true)
			return
		}
		for wi, wc := range wcfgs {
			b, err := zngWrite([]zed.Value{v.Val}, wc)
			if err != nil {
				run.Violation("symptom=write-error: "+errClass(err), map[string]any{"value": v.Name})
				continue
			}
			for _, rc := range rcfgs {
				if !rep.Thorough() && ((vi*len(wcfgs)+wi)%7 != 0) && rc.Threads > 1 {
					// quick: the multi-thread readers see every 7th (value,writer) pair
					continue
				}
				check(v.Name, []zed.Value{v.Val}, b, fmt.Sprint(wc), rc)
			}
		}
	})
	run.Sample(map[string]any{"part": "single values", "values": len(u), "writer_cfgs": len(wcfgs), "reader_cfgs": len(rcfgs)})
	// (2) all pairs (thorough: triples) over the small universe, mixed contexts,
	// every end-of-stream placement, every writer cfg, reader cfgs incl. short reads
	var seqs [][]gen.Value
	for i, a := range smallA {
		for j, b := range smallB {
			seqs = append(seqs, []gen.Value{a, b})
			if rep.Thorough() || (i+j)%5 == 0 {
				for _, c := range smallA[:8] {
					seqs = append(seqs, []gen.Value{a, b, c})
				}
			}
		}
	}
	parallel(len(seqs), func(si int) {
		seq := seqs[si]
		if past.Load() || time.Now().After(deadline) {
			past.Store(true)
			return
		}
		var vals []zed.Value
		for _, v := range seq {
			vals = append(vals, v.Val)
		}
		for _, wc := range wcfgs {
			for eos := uint(0); eos < 1<<uint(len(seq)); eos++ {
				wc.EOS = eos
				b, err := zngWrite(vals, wc)
				if err != nil {
					run.Violation("symptom=write-error: "+errClass(err), map[string]any{"values": names(seq)})
					continue
				}
				for _, rc := range rcfgs {
					if rc.Size == 16 || (rc.Scanner && rc.Validate) {
						continue
					}
					check(names(seq), vals, b, fmt.Sprint(wc), rc)
				}
				// the source's answers: one byte per call, and every split point
				if wc.Thresh == 1 || wc.Thresh == 1<<20 {
					check(names(seq), vals, b, fmt.Sprint(wc), zngReadCfg{Threads: 1, Source: "1byte"})
					check(names(seq), vals, b, fmt.Sprint(wc), zngReadCfg{Threads: 2, Source: "1byte"})
					if len(b) <= 64 && eos == 0 {
						for at := 1; at < len(b); at++ {
							check(names(seq), vals, b, fmt.Sprint(wc), zngReadCfg{Threads: 1, Source: fmt.Sprintf("split@%d", at)})
						}
					}
				}
			}
		}
	})
	run.Sample(map[string]any{"part": "short sequences", "sequences": len(seqs), "example": names(seqs[len(seqs)/3])})
	// (3) type-id reuse across streams: every sequence of length <= 4 over shapes whose
	// types nest in one another (so that a local type id denotes different types in
	// consecutive streams, and a frame can refer to a higher id before a lower one),
	// every end-of-stream placement
	shapeText := []string{`{x:1}`, `{b:11}`, `{a:{b:10}}`, `{a:{x:1}}`, `[{b:1}]`, `{x:"s"}`, `7`}
	var shapes []gen.Value
	for _, st := range shapeText {
		v, err := zson.ParseValue(zA, st)
		if err != nil {
			t.Fatalf("harness: %v", err)
		}
		shapes = append(shapes, gen.Value{Name: st, Val: v})
	}
	var idSeqs [][]gen.Value
	var build func(prefix []gen.Value, n int)
	build = func(prefix []gen.Value, n int) {
		if len(prefix) >= 2 {
			idSeqs = append(idSeqs, append([]gen.Value(nil), prefix...))
		}
		if n == 0 {
			return
		}
		for _, sh := range shapes {
			build(append(prefix, sh), n-1)
		}
	}
	maxLen := 4
	if rep.Thorough() {
		maxLen = 5
	}
	build(nil, maxLen)
	parallel(len(idSeqs), func(si int) {
		seq := idSeqs[si]
		if past.Load() || time.Now().After(deadline) {
			past.Store(true)
			return
		}
		var vals []zed.Value
		for _, v := range seq {
			vals = append(vals, v.Val)
		}
		for _, wc := range []zngWriteCfg{{Compress: false, Thresh: 1}, {Compress: true, Thresh: 1 << 20}} {
			for eos := uint(1); eos < 1<<uint(len(seq)-1); eos++ {
				wc.EOS = eos
				b, err := zngWrite(vals, wc)
				if err != nil {
					run.Violation("symptom=write-error: "+errClass(err), map[string]any{"values": names(seq)})
					continue
				}
				for _, rc := range []zngReadCfg{{Threads: 1, Source: "whole"}, {Threads: 2, Source: "whole"}, {Threads: 1, Scanner: true, Validate: true, Source: "whole"}} {
					check(names(seq), vals, b, fmt.Sprint(wc), rc)
				}
			}
		}
	})
	run.Sample(map[string]any{"part": "type-id reuse across streams", "sequences": len(idSeqs), "shapes": shapeText})
	// (3) concatenation of independently written streams (typedef ids restart)
	nconc := 0
	for _, a := range smallA {
		for _, b := range smallB {
			for _, wc := range []zngWriteCfg{{false, 1, 0}, {true, 1 << 20, 0}, {true, 7, 0}} {
				b1, _ := zngWrite([]zed.Value{a.Val, b.Val}, wc)
				b2, _ := zngWrite([]zed.Value{b.Val, a.Val}, wc)
				cat := append(append([]byte(nil), b1...), b2...)
				for _, rc := range []zngReadCfg{{Threads: 1, Source: "whole"}, {Threads: 3, Source: "whole", Validate: true}, {Threads: 2, Size: 1, Source: "1byte"}} {
					check("concat:"+a.Name+";"+b.Name, []zed.Value{a.Val, b.Val, b.Val, a.Val}, cat, fmt.Sprint(wc), rc)
					nconc++
				}
			}
		}
	}
	// (4) one long sequence with the whole universe: many typedefs and frames
	var all []zed.Value
	for _, v := range u {
		all = append(all, v.Val)
	}
	for _, wc := range wcfgs {
		b, err := zngWrite(all, wc)
		if err != nil {
			run.Violation("symptom=write-error: "+errClass(err), map[string]any{"values": "whole universe"})
			continue
		}
		for _, rc := range rcfgs {
			check(fmt.Sprintf("whole-universe(%d values)", len(all)), all, b, fmt.Sprint(wc), rc)
		}
		check(fmt.Sprintf("whole-universe(%d values)", len(all)), all, b, fmt.Sprint(wc), zngReadCfg{Threads: 3, Source: "1byte"})
	}
	run.Set("concatenations", nconc)
	if past.Load() {
		exhaustive = false
	}
	run.Set("exhaustive", exhaustive)
	run.Set("rule", "values: the boundary universe (every kind, nesting to depth 2, thorough 3; types drawn alternately from two contexts); sequences: every value alone, all pairs and a slice of triples over a 17-value sub-universe with every end-of-stream placement, concatenations of independently written streams, one sequence holding the whole universe, and every sequence of length 2..4 (thorough 5) over seven shapes whose record types nest in one another with every end-of-stream placement (so that a local type id denotes different types in consecutive streams); writer: compress in {off,on} x frameThresh in {1,2,7,64,2^20}; reader: threads in {1,2,3} x read size in {1,16,default} x validate in {off,on} x {Read, NewScanner/Pull}, into the writer's context and into a fresh one; source delivering all at once, one byte per call, or split at every offset (streams <= 64 B). Oracle: decoded sequence == written sequence (length, order, structural type, value bytes). distinct = distinct value sequences")
	run.Assume("decode-worker interleavings are exercised by free-running goroutines here (threads 2,3); systematic exploration of those schedules needs source instrumentation and is reported separately when present")
}

func srcClass(s string) string {
	if len(s) > 6 && s[:6] == "split@" {
		return "split"
	}
	return s
}
