package checks

import (
	"bytes"
	"fmt"
	"regexp"
	"strings"
	"testing"

	zed "github.com/brimdata/super"
	"github.com/brimdata/super/zcode"
	"github.com/brimdata/super/zio"
	"github.com/brimdata/super/zio/jsonio"
	"github.com/brimdata/super/zio/zsonio"
	"github.com/brimdata/super/zson"

	"verif/gen"
	"verif/rep"
)

// ---- C02: ZSON text round trip is the identity; JSON is a subset ---------------

func universe(zctx *zed.Context, deep bool) []gen.Value {
	core := gen.Core(zctx)
	out := append([]gen.Value(nil), core...)
	var wraps []gen.Value
	for _, v := range core {
		wraps = append(wraps, gen.Wrap(zctx, v)...)
	}
	out = append(out, wraps...)
	if deep {
		for i, v := range wraps {
			if i%3 == 0 { // every third wrap gets a second level: a few thousand depth-3 values
				out = append(out, gen.Wrap(zctx, v)...)
			}
		}
	}
	return out
}

func readAll(r zio.Reader) ([]zed.Value, error) {
	var out []zed.Value
	for {
		v, err := r.Read()
		if err != nil {
			return out, err
		}
		if v == nil {
			return out, nil
		}
		out = append(out, v.Copy())
	}
}

func TestC02(t *testing.T) {
	run := rep.Start("C02", "exploration")
	defer run.Finish(t)
	zctx := zed.NewContext()
	u := universe(zctx, rep.Thorough())
	persist := regexp.MustCompile(".*")
	// (1) single values through every formatter setting
	for _, v := range u {
		texts := map[string]string{"FormatValue": safeFormat(func() string { return zson.FormatValue(v.Val) })}
		for _, pretty := range []int{0, 2, 4} {
			for _, p := range []*regexp.Regexp{nil, persist} {
				f := zson.NewFormatter(pretty, true, p)
				name := fmt.Sprintf("Formatter(pretty=%d,persist=%v).Format", pretty, p != nil)
				texts[name] = safeFormat(func() string { return f.Format(v.Val) })
				if zed.TypeUnder(v.Val.Type()).Kind() == zed.RecordKind {
					f2 := zson.NewFormatter(pretty, true, p)
					texts[strings.Replace(name, ".Format", ".FormatRecord", 1)] = safeFormat(func() string { return f2.FormatRecord(v.Val) })
				}
			}
		}
		for how, text := range texts {
			run.Eval(v.Name)
			if strings.HasPrefix(text, "PANIC:") {
				run.Violation(fmt.Sprintf("format how=%s symptom=panic value-kind=%s", how, kindOf(v.Val)), map[string]any{"value": v.Name, "panic": text})
				continue
			}
			got, err := zson.ParseValue(zed.NewContext(), text)
			if err != nil {
				run.Violation(fmt.Sprintf("roundtrip how=%s symptom=formatted-text-does-not-parse kind=%s error=%s", strings.Split(how, "(")[0], kindOf(v.Val), c02ErrClass(err)),
					map[string]any{"value": v.Name, "text": text, "error": err.Error()})
				continue
			}
			if !gen.ValueEq(v.Val, got) {
				run.Violation(fmt.Sprintf("roundtrip how=%s symptom=value-changed kind=%s", strings.Split(how, "(")[0], kindOf(v.Val)),
					map[string]any{"value": v.Name, "text": text, "original": gen.Describe(v.Val), "reparsed": gen.Describe(got)})
			}
		}
	}
	// (1b) every ordered pair of core values as a two-field record and as a
	// two-element array (token boundaries between adjacent values)
	core := gen.Core(zctx)
	for _, a := range core {
		for _, b := range core {
			rec := zctx.MustLookupTypeRecord([]zed.Field{{Name: "a", Type: a.Val.Type()}, {Name: "b", Type: b.Val.Type()}})
			var bld zcode.Builder
			bld.Append(a.Val.Bytes())
			bld.Append(b.Val.Bytes())
			v := zed.NewValue(rec, bld.Bytes())
			name := "{a:" + a.Name + ",b:" + b.Name + "}"
			run.Eval(name)
			text := safeFormat(func() string { return zson.FormatValue(v) })
			got, err := zson.ParseValue(zed.NewContext(), text)
			if err != nil {
				run.Violation(fmt.Sprintf("roundtrip how=FormatValue symptom=formatted-text-does-not-parse kind=two-field-record(%s,%s) error=%s", kindOf(a.Val), kindOf(b.Val), c02ErrClass(err)),
					map[string]any{"value": name, "text": text, "error": err.Error()})
			} else if !gen.ValueEq(v, got) {
				run.Violation(fmt.Sprintf("roundtrip how=FormatValue symptom=value-changed kind=two-field-record(%s,%s)", kindOf(a.Val), kindOf(b.Val)),
					map[string]any{"value": name, "text": text, "original": gen.Describe(v), "reparsed": gen.Describe(got)})
			}
		}
	}
	run.Sample(map[string]any{"universe_size": len(u), "example": u[len(u)/2].Name, "text": zson.FormatValue(u[len(u)/2].Val)})
	// (2) two- and three-value streams: typedefs persist (stream scope) or not (value scope)
	small := gen.Small(zctx)
	streams := 0
	var seqs [][]gen.Value
	for _, a := range small {
		for _, b := range small {
			seqs = append(seqs, []gen.Value{a, b})
		}
	}
	if rep.Thorough() {
		for _, a := range small {
			for _, b := range small {
				for _, c := range small {
					seqs = append(seqs, []gen.Value{a, b, c})
				}
			}
		}
	}
	// explicit type-name redefinitions and later references
	for _, lits := range [][]string{
		{`1(=n)`, `"x"(=n)`, `2(=n)`},
		{`{a:1(=n)}`, `{a:"x"(=n)}`, `{a:1(=n)}`},
		{`80(port=uint16)`, `[81(port=uint16)]`, `{p:82(port=uint16)}`},
		{`{a:1}(=r)`, `{a:"s"}(=r)`, `[{a:1}(=r)]`},
		{`<n=int64>`, `1(=n)`, `<n=string>`},
	} {
		var s []gen.Value
		for _, l := range lits {
			v, err := zson.ParseValue(zctx, l)
			if err != nil {
				t.Fatalf("harness literal %s: %v", l, err)
			}
			s = append(s, gen.Value{Name: l, Val: v.Copy()})
		}
		seqs = append(seqs, s)
	}
	for _, seq := range seqs {
		for _, pretty := range []int{0, 4} {
			for _, scope := range []string{"zsonio.Writer", "Formatter.Format(persist)", "Formatter.FormatRecord"} {
				var text string
				switch scope {
				case "zsonio.Writer":
					var buf bytes.Buffer
					w := zsonio.NewWriter(zio.NopCloser(&buf), zsonio.WriterOpts{Pretty: pretty})
					for _, v := range seq {
						if err := w.Write(v.Val); err != nil {
							t.Fatalf("zsonio write: %v", err)
						}
					}
					w.Close()
					text = buf.String()
				case "Formatter.Format(persist)":
					f := zson.NewFormatter(pretty, true, persist)
					for _, v := range seq {
						text += f.Format(v.Val) + "\n"
					}
				default:
					ok := true
					for _, v := range seq {
						if zed.TypeUnder(v.Val.Type()).Kind() != zed.RecordKind {
							ok = false
						}
					}
					if !ok {
						continue
					}
					f := zson.NewFormatter(pretty, true, nil)
					for _, v := range seq {
						text += f.FormatRecord(v.Val) + "\n"
					}
				}
				streams++
				run.Eval("stream:" + scope + ":" + names(seq))
				got, err := readAll(zsonio.NewReader(zed.NewContext(), strings.NewReader(text)))
				var want []zed.Value
				for _, v := range seq {
					want = append(want, v.Val)
				}
				if err != nil {
					run.Violation(fmt.Sprintf("stream how=%s symptom=text-does-not-parse", scope), map[string]any{"values": names(seq), "text": text, "error": err.Error()})
					continue
				}
				if i, ok := gen.SeqEq(want, got); !ok {
					run.Violation(fmt.Sprintf("stream how=%s symptom=value-changed", scope), map[string]any{"values": names(seq), "text": text, "first_difference_at": i})
				}
			}
		}
	}
	run.Set("streams", streams)
	// (3) every JSON document of a bounded grammar: ZSON reader ≡ JSON reader
	docs := jsonDocs(rep.Thorough())
	for _, d := range docs {
		run.Eval("json:" + d)
		zv, zerr := readAll(zsonio.NewReader(zed.NewContext(), strings.NewReader(d)))
		jv, jerr := readAll(jsonio.NewReader(zed.NewContext(), strings.NewReader(d)))
		switch {
		case jerr != nil && zerr != nil:
		case jerr != nil:
			// the JSON reader rejects it: not "valid JSON" for this code base; skip
		case zerr != nil:
			run.Violation(fmt.Sprintf("json symptom=valid-json-rejected-as-zson class=%s", jsonClass(d)), map[string]any{"json": d, "error": zerr.Error()})
		default:
			if _, ok := gen.SeqEq(jv, zv); !ok {
				run.Violation(fmt.Sprintf("json symptom=zson-and-json-readers-disagree class=%s", jsonClass(d)),
					map[string]any{"json": d, "as_json": describeAll(jv), "as_zson": describeAll(zv)})
			}
		}
	}
	run.Set("json_documents", len(docs))
	run.Sample(map[string]any{"json_example": docs[len(docs)/2]})
	run.Set("exhaustive", true)
	run.Set("rule", "every value of the universe (core boundary values of every kind plus their one-level compositions into records, arrays, sets, maps, errors, named types; thorough: a third level) through FormatValue and Formatter.Format/FormatRecord with pretty in {0,2,4} and persist in {nil,.*}, reparsed into a fresh context and compared structurally (type structure + value bytes; NaN by bits); all ordered pairs (thorough: triples) over a 17-value sub-universe plus type-name redefinition sequences as streams through zsonio.Writer / Formatter with persistent typedefs / FormatRecord; every JSON document of a bounded grammar read by the ZSON reader and the JSON reader. distinct = distinct values / streams / documents")
	run.Assume("values outside the universe and deeper nesting are not covered; the universe's text-derived values are built with the ZSON parser itself, builder-made values cover -0.0, NaN payloads, quoted enum symbols, missing/quiet errors")
}

func safeFormat(f func() string) (s string) {
	defer func() {
		if p := recover(); p != nil {
			s = fmt.Sprintf("PANIC: %v", p)
		}
	}()
	return f()
}

func kindOf(v zed.Value) string {
	t := v.Type()
	if n, ok := t.(*zed.TypeNamed); ok {
		return "named(" + zed.TypeUnder(n).Kind().String() + ")"
	}
	if t.Kind() == zed.PrimitiveKind {
		return zson.FormatType(t)
	}
	return t.Kind().String()
}

func names(seq []gen.Value) string {
	var s []string
	for _, v := range seq {
		s = append(s, v.Name)
	}
	return strings.Join(s, " ; ")
}

func describeAll(vs []zed.Value) []string {
	var out []string
	for _, v := range vs {
		out = append(out, gen.Describe(v))
	}
	return out
}

// c02ErrClass is the parser's complaint with quoted names removed: it names the
// construct the parser rejected.
func c02ErrClass(err error) string {
	return rep.Short(c02QuotedRe.ReplaceAllString(err.Error(), `"..."`), 90)
}

var c02QuotedRe = regexp.MustCompile(`"[^"]*"`)

var dupKeyRe = regexp.MustCompile(`"a":[^,{}]*,"a":`)

func jsonClass(d string) string {
	switch {
	case dupKeyRe.MatchString(d):
		return "duplicate-keys"
	case strings.Contains(d, `\u`):
		return "unicode-escape"
	case strings.ContainsAny(d, "eE") && !strings.Contains(d, "true") && !strings.Contains(d, "false"):
		return "exponent"
	case strings.Contains(d, "-0"):
		return "negative-zero"
	case strings.Contains(d, "12345678901234567890"), strings.Contains(d, "9223372036854775808"), strings.Contains(d, "9223372036854775809"):
		return "integer-outside-int64"
	}
	return "other"
}

// jsonDocs enumerates a bounded JSON grammar.
func jsonDocs(deep bool) []string {
	scalars := []string{`0`, `-0`, `1`, `-1`, `1.5`, `-1.5`, `1e3`, `1E-2`, `1.0`, `1e400`, `12345678901234567890`, `9223372036854775807`, `9223372036854775808`, `-9223372036854775809`,
		`true`, `false`, `null`, `""`, `"a"`, `"\n"`, `"\""`, `"\\"`, `"é"`, `"😀"`, `"\/"`, `"1.2.3.4"`, `"2024-01-01T00:00:00Z"`,
		// \u escapes: ASCII, Latin-1, a control code, and surrogate pairs at the start, after ASCII, after a multi-byte rune and followed by more text
		`"\u0041"`, `"\u00e9"`, `"\u001f"`, `"\b\f\r\t"`, `"\ud83d\ude00"`, `"a\ud83d\ude00"`, `"\ud83d\ude00b"`, `"é\ud83d\ude00é"`, `"\ud83d\ude00\ud83d\ude01"`}
	few := []string{`1`, `"a"`, `null`, `1.5`, `true`}
	var level1 []string
	level1 = append(level1, `[]`, `{}`)
	for _, s := range scalars {
		level1 = append(level1, `[`+s+`]`, `{"a":`+s+`}`)
	}
	for _, s := range few {
		for _, u := range few {
			level1 = append(level1, `[`+s+`,`+u+`]`, `{"a":`+s+`,"b":`+u+`}`, `{"a":`+s+`,"a":`+u+`}`)
		}
	}
	docs := append([]string(nil), scalars...)
	docs = append(docs, level1...)
	// whitespace and multi-document variants
	docs = append(docs, " 1 ", "\n{ \"a\" : 1 }\n", "[ 1 , 2 ]", "1 2", `{"a":1} {"b":2}`, "1\n\"a\"\n", `{"a b":1}`, `{"":1}`, `{"é":1}`, `{"true":1}`, `{"a":{"a":{"a":1}}}`, `{"\u0061":1}`, `{"k\ud83d\ude00":1}`)
	// level 2: containers of level-1 containers (over the small scalar set)
	var l1small []string
	for _, s := range few {
		l1small = append(l1small, `[`+s+`]`, `{"a":`+s+`}`)
	}
	l1small = append(l1small, `[]`, `{}`, `[1,"a"]`, `{"a":1,"b":"x"}`)
	for _, x := range l1small {
		docs = append(docs, `[`+x+`]`, `{"a":`+x+`}`)
		for _, y := range l1small {
			docs = append(docs, `[`+x+`,`+y+`]`, `{"a":`+x+`,"b":`+y+`}`)
			if deep {
				for _, s := range few {
					docs = append(docs, `[`+x+`,`+s+`,`+y+`]`, `{"a":[`+x+`,`+y+`],"b":`+s+`}`, `[[`+x+`],{"k":`+y+`},`+s+`]`)
				}
			}
		}
	}
	return docs
}
