package checks

import (
	"bufio"
	"encoding/json"
	"fmt"
	"os"
	"os/exec"
	"regexp"
	"runtime"
	"strconv"
	"strings"
	"sync"
	"syscall"
	"testing"

	"verif/rep"
)

// Isolated job families: the jobs of a check run in child processes so that a
// panic in a goroutine the harness does not own (which kills the process) is
// attributed to the job that was running and reported as a violation.

type isoResult struct {
	I          int              `json:"i"`
	Evals      []string         `json:"evals,omitempty"`
	Violations []hViolation     `json:"violations,omitempty"`
	Counters   map[string]int64 `json:"counters,omitempty"`
}

type isoCtx struct {
	res   *isoResult
	trace string // when set, Step records the step about to run in this file
}

// Step marks the start of sub-step k of the job.  It is a no-op unless the job
// is being re-run to locate a crash, in which case the step is recorded so the
// parent can name the exact input.
func (c *isoCtx) Step(k int, describe func() string) {
	if c.trace != "" {
		os.WriteFile(c.trace, []byte(describe()), 0o644)
	}
}

func (c *isoCtx) Eval(key string) { c.res.Evals = append(c.res.Evals, key) }
func (c *isoCtx) Violation(sig string, detail map[string]any) {
	c.res.Violations = append(c.res.Violations, hViolation{sig, detail})
}
func (c *isoCtx) Count(name string, n int64) {
	if c.res.Counters == nil {
		c.res.Counters = map[string]int64{}
	}
	c.res.Counters[name] += n
}

type isoFamily struct {
	// N returns the number of jobs; Name and Class describe job i (Class goes
	// into crash signatures); Run executes it.
	N     func() int
	Name  func(i int) string
	Class func(i int) string
	Run   func(i int, c *isoCtx)
	// CrashSig, if set, computes the signature of a process crash in job i.
	CrashSig func(i int, site string) string
	// Traceable: the job calls c.Step before each sub-step, so a crash can be
	// pinned to one input by re-running the job alone in trace mode.
	Traceable bool
}

var isoFamilies = map[string]*isoFamily{}

var goroutineRe = regexp.MustCompile(`(?m)^(panic: .*|fatal error: .*)$`)
var frameRe = regexp.MustCompile(`(?m)^(github\.com/brimdata/super[^\s(]*)\(`)

// crashSite extracts "panic message @ first repo frame" from a Go crash dump.
func crashSite(stderr string) string {
	msg := "unknown"
	if m := goroutineRe.FindString(stderr); m != "" {
		msg = m
	}
	site := ""
	if i := strings.Index(stderr, msg); i >= 0 {
		if m := frameRe.FindStringSubmatch(stderr[i:]); m != nil {
			site = m[1]
		}
	}
	msg = regexp.MustCompile(`0x[0-9a-f]+`).ReplaceAllString(msg, "0x?")
	msg = regexp.MustCompile(`\[[0-9:]+\]|index [0-9]+|length [0-9]+|capacity [0-9]+`).ReplaceAllString(msg, "#")
	return rep.Short(msg, 120) + " @ " + site
}

// runIsolated runs all jobs of the family in child processes and folds the
// results into run.  Returns the number of jobs run and of process crashes.
func runIsolated(t *testing.T, run *rep.Run, family string) (jobs, crashes int) {
	f := isoFamilies[family]
	n := f.N()
	workers := runtime.NumCPU()
	chunk := (n + workers*4 - 1) / (workers * 4)
	if chunk < 1 {
		chunk = 1
	}
	tmp, err := os.MkdirTemp("", "verif-iso-")
	if err != nil {
		t.Fatal(err)
	}
	defer os.RemoveAll(tmp)
	var mu sync.Mutex
	var wg sync.WaitGroup
	sem := make(chan struct{}, workers)
	for from := 0; from < n; from += chunk {
		from := from
		to := min(from+chunk, n)
		wg.Add(1)
		go func() {
			defer wg.Done()
			sem <- struct{}{}
			defer func() { <-sem }()
			for start := from; start < to; {
				out := fmt.Sprintf("%s/%d.jsonl", tmp, start)
				prog := fmt.Sprintf("%s/%d.progress", tmp, start)
				cmd := exec.Command(os.Args[0], "-test.run", "^TestIsolatedChild$", "-test.timeout", "0")
				cmd.Env = append(os.Environ(), "VERIF_ISO="+family, "VERIF_ISO_FROM="+strconv.Itoa(start), "VERIF_ISO_TO="+strconv.Itoa(to),
					"VERIF_ISO_OUT="+out, "VERIF_ISO_PROGRESS="+prog, "GOMAXPROCS=2", "GOTRACEBACK=all")
				stderr, runErr := cmd.CombinedOutput()
				// fold results
				done := map[int]bool{}
				if fh, err := os.Open(out); err == nil {
					sc := bufio.NewScanner(fh)
					sc.Buffer(make([]byte, 1<<20), 1<<28)
					for sc.Scan() {
						var r isoResult
						if json.Unmarshal(sc.Bytes(), &r) != nil {
							continue
						}
						done[r.I] = true
						mu.Lock()
						jobs++
						for _, e := range r.Evals {
							run.Eval(e)
						}
						for _, v := range r.Violations {
							run.Violation(v.Sig, v.Detail)
						}
						for k, v := range r.Counters {
							run.Add(k, v)
						}
						mu.Unlock()
					}
					fh.Close()
				}
				if runErr == nil {
					break
				}
				// the child died: the job in progress is the culprit
				pb, _ := os.ReadFile(prog)
				at, perr := strconv.Atoi(strings.TrimSpace(string(pb)))
				if perr == nil && done[at] && at >= start && at < to {
					// The process died after job at had reported: a goroutine it
					// left behind panicked later.  Attribute the crash to it.
					delete(done, at)
					mu.Lock()
					jobs--
					mu.Unlock()
				}
				if perr != nil || done[at] || at < start || at >= to {
					mu.Lock()
					fmt.Println("HARNESS-ERROR: isolated child failed outside a job:", runErr, tail(string(stderr), 2000))
					mu.Unlock()
					t.Errorf("isolated child of %s failed outside a job", family)
					return
				}
				// re-run the culprit alone in trace mode to learn the exact step
				stepDesc := ""
				if f.Traceable {
					tf := fmt.Sprintf("%s/%d.trace", tmp, at)
					tc := exec.Command(os.Args[0], "-test.run", "^TestIsolatedChild$", "-test.timeout", "0")
					tc.Env = append(os.Environ(), "VERIF_ISO="+family, "VERIF_ISO_FROM="+strconv.Itoa(at), "VERIF_ISO_TO="+strconv.Itoa(at+1),
						"VERIF_ISO_OUT="+tf+".out", "VERIF_ISO_PROGRESS="+tf+".progress", "VERIF_ISO_TRACE="+tf, "GOMAXPROCS=2", "GOTRACEBACK=all")
					if out2, err2 := tc.CombinedOutput(); err2 != nil {
						stderr = out2
					}
					if b, err := os.ReadFile(tf); err == nil {
						stepDesc = string(b)
					}
				}
				mu.Lock()
				crashes++
				jobs++
				run.Eval(f.Name(at))
				sig := fmt.Sprintf("symptom=process-crash case=%s: %s", f.Class(at), crashSite(string(stderr)))
				if f.CrashSig != nil {
					sig = f.CrashSig(at, crashSite(string(stderr)))
				}
				run.Violation(sig,
					map[string]any{"case": f.Name(at), "job_index": at, "crashing_step": stepDesc, "crash_output_tail": tail(string(stderr), 4000)})
				mu.Unlock()
				start = at + 1
			}
		}()
	}
	wg.Wait()
	return
}

func TestIsolatedChild(t *testing.T) {
	family := os.Getenv("VERIF_ISO")
	if family == "" {
		t.Skip("child-only")
	}
	f := isoFamilies[family]
	if f == nil {
		t.Fatalf("unknown family %s", family)
	}
	from, _ := strconv.Atoi(os.Getenv("VERIF_ISO_FROM"))
	to, _ := strconv.Atoi(os.Getenv("VERIF_ISO_TO"))
	out, err := os.OpenFile(os.Getenv("VERIF_ISO_OUT"), os.O_CREATE|os.O_WRONLY|os.O_APPEND, 0o644)
	if err != nil {
		t.Fatal(err)
	}
	defer out.Close()
	f.N() // build the job list
	// A child must not be able to exhaust the machine's memory (the sandbox has no limit
	// of its own): cap its address space; an allocation beyond it kills the child, which
	// the parent reports as a process crash of the job at hand.
	syscall.Setrlimit(syscall.RLIMIT_AS, &syscall.Rlimit{Cur: 16 << 30, Max: 16 << 30})
	for i := from; i < to; i++ {
		os.WriteFile(os.Getenv("VERIF_ISO_PROGRESS"), []byte(strconv.Itoa(i)), 0o644)
		res := &isoResult{I: i}
		f.Run(i, &isoCtx{res: res, trace: os.Getenv("VERIF_ISO_TRACE")})
		b, _ := json.Marshal(res)
		out.Write(append(b, '\n'))
	}
}
