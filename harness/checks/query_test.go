package checks

import (
	"context"
	"strings"

	zed "github.com/brimdata/super"
	"github.com/brimdata/super/compiler"
	"github.com/brimdata/super/runtime"
	"github.com/brimdata/super/zio"
	"github.com/brimdata/super/zio/zsonio"

	"verif/lk"
)

// runQueryOnText runs query over the ZSON values in text with the sequential
// runtime, no lake involved; outputs are formatted as ZSON.
func runQueryOnText(ctx context.Context, text, query string) ([]string, error) {
	zctx := zed.NewContext()
	seq, sset, err := compiler.Parse(query)
	if err != nil {
		return nil, err
	}
	r := zsonio.NewReader(zctx, strings.NewReader(text))
	q, err := runtime.CompileQuery(ctx, zctx, compiler.NewCompiler(), seq, sset, []zio.Reader{r})
	if err != nil {
		return nil, err
	}
	defer q.Pull(true)
	return lk.Drain(q)
}
