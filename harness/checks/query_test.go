package checks

import (
	"context"
	"strings"

	zed "github.com/brimdata/super"
	"github.com/brimdata/super/compiler"
	"github.com/brimdata/super/runtime"
	"github.com/brimdata/super/zio"
	"github.com/brimdata/super/zio/zsonio"

	"verif/lk"
)

// runQueryOnText runs query over the ZSON values in text with the sequential
// runtime, no lake involved; outputs are formatted as ZSON.
func runQueryOnText(ctx context.Context, text, query string) ([]string, error) {
	zctx := zed.NewContext()
	seq, sset, err := compiler.Parse(query)
	if err != nil {
		return nil, err
	}
	r := zsonio.NewReader(zctx, strings.NewReader(text))
	q, err := runtime.CompileQuery(ctx, zctx, compiler.NewCompiler(), seq, sset, []zio.Reader{r})
	if err != nil {
		return nil, err
	}
	defer q.Pull(true)
	return lk.Drain(q)
}

// runQueryOnTextVals is runQueryOnText returning the values themselves.
func runQueryOnTextVals(ctx context.Context, text, query string) ([]zed.Value, error) {
	zctx := zed.NewContext()
	seq, sset, err := compiler.Parse(query)
	if err != nil {
		return nil, err
	}
	r := zsonio.NewReader(zctx, strings.NewReader(text))
	q, err := runtime.CompileQuery(ctx, zctx, compiler.NewCompiler(), seq, sset, []zio.Reader{r})
	if err != nil {
		return nil, err
	}
	defer q.Pull(true)
	var out []zed.Value
	for {
		batch, err := q.Pull(false)
		if err != nil {
			return out, err
		}
		if batch == nil {
			return out, nil
		}
		for _, v := range batch.Values() {
			out = append(out, v.Copy())
		}
		batch.Unref()
	}
}
