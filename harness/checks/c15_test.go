package checks

import (
	"testing"
	"time"

	"verif/lk"
	"verif/rep"
)

// ---- C15: merge and revert ---------------------------------------------------------

func c15Ops(m *mLake, cfg *hConfig) []hOp {
	var ops []hOp
	names := []string{"main"}
	for _, n := range []string{"b", "c"} {
		if _, ok := m.Branches[n]; ok {
			names = append(names, n)
		}
	}
	for _, b := range names {
		tip := m.Branches[b]
		objs := m.objList(tip)
		chain := m.chain(tip)
		for i := range cfg.Batches {
			ops = append(ops, hOp{Kind: "load", Branch: b, Batch: i})
		}
		for i := 0; i < len(objs) && i < 2; i++ {
			ops = append(ops, hOp{Kind: "delete", Branch: b, Obj: []int{i}})
		}
		if len(objs) > 0 {
			ops = append(ops, hOp{Kind: "deletewhere", Branch: b, Pred: cfg.Preds[0]})
		}
		if len(objs) >= 2 {
			ops = append(ops, hOp{Kind: "compact", Branch: b, Obj: []int{0, 1}})
		}
		// revert any of the last three commits of the chain (incl. merge,
		// compact and revert commits, and commits inherited from the parent)
		for i := len(chain) - 1; i >= 0 && i >= len(chain)-3; i-- {
			ops = append(ops, hOp{Kind: "revert", Branch: b, At: i})
		}
	}
	// branch creation: b from main (tip, first commit, empty), c from b (nested) or main (sibling)
	if _, ok := m.Branches["b"]; !ok {
		ops = append(ops, hOp{Kind: "createbranch", Branch: "main", Name: "b", At: -1})
		if len(m.chain(m.Branches["main"])) >= 2 {
			ops = append(ops, hOp{Kind: "createbranch", Branch: "main", Name: "b", At: 0})
		}
	} else if _, ok := m.Branches["c"]; !ok {
		ops = append(ops, hOp{Kind: "createbranch", Branch: "b", Name: "c", At: -1}, hOp{Kind: "createbranch", Branch: "main", Name: "c", At: -1})
	}
	for _, child := range names {
		for _, parent := range names {
			if child != parent {
				ops = append(ops, hOp{Kind: "merge", Branch: parent, Name: child})
			}
		}
	}
	return ops
}

func c15Configs() []*hConfig {
	b := []string{`{k:1,v:"a"} {k:3,v:"b"}`, `{k:2,v:"c"}`}
	mk := func(name, key string, thresh int64, stride int, adj [2]int, prefix ...hOp) *hConfig {
		return &hConfig{Name: name, Key: key, Thresh: thresh, Stride: stride, Batches: b, Preds: []string{"k>=3"}, Ops: c15Ops, Prefix: prefix, DepthAdj: adj}
	}
	load0 := hOp{Kind: "load", Branch: "main", Batch: 0}
	load1 := hOp{Kind: "load", Branch: "main", Batch: 1}
	mkbTip := hOp{Kind: "createbranch", Branch: "main", Name: "b", At: -1}
	mkbFirst := hOp{Kind: "createbranch", Branch: "main", Name: "b", At: 0}
	return []*hConfig{
		mk("k:asc from empty", "k:asc", 0, 0, [2]int{0, 0}),
		mk("k:asc from [load, branch b at tip]", "k:asc", 0, 0, [2]int{-2, -1}, load0, mkbTip),
		mk("k:asc from [load, load, branch b at first commit]", "k:asc", 0, 0, [2]int{-2, -1}, load0, load1, mkbFirst),
		mk("k:asc from [load, branch b, load@b, branch c from b]", "k:asc", 0, 0, [2]int{-2, -1}, load0, mkbTip, hOp{Kind: "load", Branch: "b", Batch: 1}, hOp{Kind: "createbranch", Branch: "b", Name: "c", At: -1}),
		mk("k:asc from [load, delete, branch b at first commit]", "k:asc", 0, 0, [2]int{-2, -1}, load0, hOp{Kind: "delete", Branch: "main", Obj: []int{0}}, mkbFirst),
		// both sides touch the same objects: the parent compacts what the child then deletes (config 5)
		mk("k:asc from [load, load, branch b at tip, compact on main]", "k:asc", 0, 0, [2]int{-1, -1}, load0, load1, mkbTip, hOp{Kind: "compact", Branch: "main", Obj: []int{0, 1}}),
		mk("k:desc thresh=1 from empty", "k:desc", 1, 1, [2]int{0, 0}),
		mk("k:desc thresh=1 from [load, branch b at tip]", "k:desc", 1, 1, [2]int{-2, -1}, load0, mkbTip),
	}
}

func TestC15(t *testing.T) {
	run := rep.Start("C15", "model_checking")
	defer run.Finish(t)
	depth := 4
	if rep.Thorough() {
		depth = 5
	}
	if d := envInt("VERIF_DEPTH"); d > 0 {
		depth = d
	}
	sel := []int{0, 1, 2, 3, 4, 5}
	if rep.Thorough() {
		sel = []int{0, 1, 2, 3, 4, 5, 6, 7}
	}
	runHistoryShards(t, run, "c15", len(c15Configs()), sel, depth, rep.Deadline(4*time.Minute, 45*time.Minute))
	// merge racing with commits on the parent / child: all interleavings
	c15Races(t, run)
	run.Set("rule", "BFS to the stated depth over {load(2 batches), delete, delete-where, compact, revert(any of the last 3 commits of the chain), create branch b (at tip / first commit) and c (from b or main), merge in every direction} on main and up to two branches; model: merge(c→p) = p ∪ (c∖a) ∖ (a∖c) on objects with a the nearest common commit, and additionally on values as multisets (parent's values + child's additions - child's deletions), or an error that leaves p untouched; revert(x) removes x's additions still present and restores x's deletions still absent. Every state: all branches and all earlier commits readable and equal to the model. Plus merge‖load races explored under the controlled scheduler")
	run.Assume("merge is allowed to fail (conflict, nothing to merge); a failure must leave every branch untouched and readable")
}

func envInt(name string) int {
	return rep.EnvInt(name)
}

func c15RaceScenarios() []concScenario {
	mkp := lk.Op{Kind: "createpool", Pool: "p", Key: "k:asc"}
	l1 := ld("p", "main", `{k:1,v:"a"}`)
	mkb := lk.Op{Kind: "createbranch", Pool: "p", Branch: "main", Name: "b", At: -1}
	lb := ld("p", "b", `{k:7,v:"x"}`)
	mrg := lk.Op{Kind: "merge", Pool: "p", Branch: "main", Name: "b"}
	var out []concScenario
	for _, m := range []string{"atomic", "file"} {
		out = append(out,
			concScenario{Name: "merge||load-on-parent", Mode: m, Setup: []lk.Op{mkp, l1, mkb, lb}, Clients: [][]lk.Op{{mrg}, {ld("p", "main", `{k:10,v:"A"}`)}}, Bound: -1, Quick: true},
			concScenario{Name: "merge||load-on-child", Mode: m, Setup: []lk.Op{mkp, l1, mkb, lb}, Clients: [][]lk.Op{{mrg}, {ld("p", "b", `{k:11,v:"B"}`)}}, Bound: -1, Quick: true},
			concScenario{Name: "merge||delete-on-parent", Mode: m, Setup: []lk.Op{mkp, l1, mkb, lb}, Clients: [][]lk.Op{{mrg}, {{Kind: "delete", Pool: "p", Branch: "main", Idx: []int{0}}}}, Bound: -1, Quick: m == "atomic"},
			concScenario{Name: "merge||revert-on-parent", Mode: m, Setup: []lk.Op{mkp, l1, ld("p", "main", `{k:2,v:"b"}`), mkb, lb}, Clients: [][]lk.Op{{mrg}, {{Kind: "revert", Pool: "p", Branch: "main", Idx: []int{1}}}}, Bound: -1, Quick: false},
		)
	}
	return out
}

func c15Races(t *testing.T, run *rep.Run) {
	sub := rep.Start("C15", "model_checking")
	runConc(t, sub, c15RaceScenarios(), 3*time.Minute, 20*time.Minute)
	run.Merge(sub, "race_")
}
