//go:build vsync

package checks

import (
	"bytes"
	"fmt"
	"sort"
	"strings"

	zed "github.com/brimdata/super"
	"github.com/brimdata/super/pkg/vsyncshim"
	"github.com/brimdata/super/zson"

	"verif/gen"
	"verif/rep"
)

// ---- C05, concurrent part: every interleaving of Context calls at lock granularity ----
//
// Built only by `bin/check C05`, which overlays context.go so that the
// Context's mutex is a vsyncshim.RWMutex.  Threads are goroutines of which
// exactly one runs at a time; a thread stops before every Lock/RLock (and
// before its first step) and the explorer decides who goes next, enumerating
// every choice sequence depth-first.  Lock state is modelled (a thread is
// enabled only if its pending acquisition can be granted), so no goroutine
// ever blocks on a real mutex.

type vsThread struct {
	name   string
	body   func() any
	resume chan struct{}
	// pending acquisition (nil = thread start)
	want      *vsyncshim.RWMutex
	wantWrite bool
	done      bool
	result    any
	panicked  any
}

type vsSched struct {
	threads []*vsThread
	cur     int // running thread, -1 = the explorer itself
	parked  chan struct{}
	// recorded execution
	choices  []int
	nEnabled []int
	// lastEnabled[i]: at point i the thread that ran last could have continued
	lastEnabled []bool
	trace       []string
	prefix      []int
	deadlock    bool
}

func (s *vsSched) enabled(t *vsThread) bool {
	if t.done {
		return false
	}
	if t.want == nil {
		return true
	}
	if t.wantWrite {
		return !t.want.Writer && t.want.Readers == 0
	}
	return !t.want.Writer
}

// Acquire is called by the running thread (or by the explorer between
// executions, which is granted immediately).
func (s *vsSched) Acquire(m *vsyncshim.RWMutex, write bool) {
	if s.cur < 0 {
		if m.Writer || (write && m.Readers > 0) {
			panic("vsync: lock held while no thread is running")
		}
		s.grant(m, write)
		return
	}
	t := s.threads[s.cur]
	t.want, t.wantWrite = m, write
	s.parked <- struct{}{}
	<-t.resume
	s.grant(m, write)
	t.want = nil
}

func (s *vsSched) grant(m *vsyncshim.RWMutex, write bool) {
	if write {
		m.Writer = true
	} else {
		m.Readers++
	}
}

func (s *vsSched) Release(m *vsyncshim.RWMutex, write bool) {
	if write {
		if !m.Writer {
			panic("vsync: unlock of unlocked mutex")
		}
		m.Writer = false
	} else {
		if m.Readers <= 0 {
			panic("vsync: runlock of unlocked mutex")
		}
		m.Readers--
	}
}

// run executes the threads once, following prefix and then always choice 0
// (the lowest-numbered enabled thread, preferring the one that just ran).
func (s *vsSched) run(mk func() []*vsThread, prefix []int) {
	s.threads = mk()
	s.cur = -1
	s.parked = make(chan struct{})
	s.choices, s.nEnabled, s.trace, s.lastEnabled = nil, nil, nil, nil
	s.deadlock = false
	vsyncshim.Install(s)
	defer vsyncshim.Install(nil)
	for _, t := range s.threads {
		t := t
		t.resume = make(chan struct{})
		go func() {
			<-t.resume
			defer func() {
				if p := recover(); p != nil {
					t.panicked = p
				}
				t.done = true
				s.parked <- struct{}{}
			}()
			t.result = t.body()
		}()
	}
	last := -1
	for {
		var en []int
		if last >= 0 && s.enabled(s.threads[last]) {
			en = append(en, last)
		}
		for i, t := range s.threads {
			if i != last && s.enabled(t) {
				en = append(en, i)
			}
		}
		if len(en) == 0 {
			for _, t := range s.threads {
				if !t.done {
					s.deadlock = true
				}
			}
			return
		}
		c := 0
		if len(s.choices) < len(prefix) {
			c = prefix[len(s.choices)]
			if c >= len(en) {
				panic(fmt.Sprintf("vsync: replay diverged: choice %d of %d at point %d", c, len(en), len(s.choices)))
			}
		}
		s.choices = append(s.choices, c)
		s.nEnabled = append(s.nEnabled, len(en))
		s.lastEnabled = append(s.lastEnabled, last >= 0 && en[0] == last)
		pick := en[c]
		t := s.threads[pick]
		what := "start"
		if t.want != nil {
			what = "RLock"
			if t.wantWrite {
				what = "Lock"
			}
		}
		s.trace = append(s.trace, t.name+":"+what)
		s.cur = pick
		last = pick
		t.resume <- struct{}{}
		<-s.parked
		s.cur = -1
	}
}

// vsExplore enumerates the interleavings of the scenario with at most bound
// preemptions (switching away from a thread that could have continued; a
// negative bound means unbounded) and calls check after each complete
// execution.  cut reports whether the bound excluded any schedule.
func vsExplore(mk func() []*vsThread, bound int, check func(s *vsSched) string, onFail func(msg string, s *vsSched)) (execs, points int64, cut bool) {
	s := &vsSched{}
	type item struct {
		prefix []int
		used   int // preemptions spent in prefix
	}
	stack := []item{{nil, 0}}
	for len(stack) > 0 {
		it := stack[len(stack)-1]
		stack = stack[:len(stack)-1]
		s.run(mk, it.prefix)
		execs++
		points += int64(len(s.choices))
		msg := ""
		if s.deadlock {
			msg = "deadlock: threads blocked on locks that are never released"
		} else {
			for _, t := range s.threads {
				if t.panicked != nil {
					msg = fmt.Sprintf("panic in %s: %v", t.name, t.panicked)
				}
			}
			if msg == "" {
				msg = check(s)
			}
		}
		if msg != "" {
			onFail(msg, s)
		}
		// beyond the prefix every choice was 0, which never preempts
		for i := len(it.prefix); i < len(s.choices); i++ {
			cost := 0
			if s.lastEnabled[i] {
				cost = 1 // option 0 was the thread that just ran: any alternative preempts it
			}
			if bound >= 0 && it.used+cost > bound {
				if s.nEnabled[i] > 1 {
					cut = true
				}
				continue
			}
			for alt := 1; alt < s.nEnabled[i]; alt++ {
				stack = append(stack, item{append(append([]int(nil), s.choices[:i]...), alt), it.used + cost})
			}
		}
	}
	return execs, points, cut
}

// vsExploreCapped explores unbounded if that takes at most c05ExecCap
// executions; otherwise it explores completely up to the largest preemption
// bound (4, 3, 2, 1) that fits the cap.
func vsExploreCapped(mk func() []*vsThread, bound int, check func(s *vsSched) string, onFail func(msg string, s *vsSched)) (int64, int64, bool) {
	if bound >= 0 {
		return vsExplore(mk, bound, check, onFail)
	}
	if n := vsCount(mk, -1, c05ExecCap()); n >= 0 {
		return vsExplore(mk, -1, check, onFail)
	}
	for _, b := range []int{4, 3, 2, 1} {
		if n := vsCount(mk, b, c05ExecCap()); n >= 0 {
			e, p, _ := vsExplore(mk, b, check, onFail)
			return e, p, true
		}
	}
	e, p, _ := vsExplore(mk, 0, check, onFail)
	return e, p, true
}

func c05ExecCap() int64 {
	if rep.Thorough() {
		return 400000
	}
	return 30000
}

// vsCount runs the exploration without the oracle until it ends (returns the
// number of executions) or exceeds limit (returns -1).
func vsCount(mk func() []*vsThread, bound int, limit int64) int64 {
	var n int64
	over := false
	func() {
		defer func() {
			if p := recover(); p != nil {
				if p != errVsLimit {
					panic(p)
				}
				over = true
			}
		}()
		vsExplore(mk, bound, func(*vsSched) string {
			n++
			if n > limit {
				panic(errVsLimit)
			}
			return ""
		}, func(string, *vsSched) {})
	}()
	if over {
		return -1
	}
	return n
}

var errVsLimit = fmt.Errorf("vsync: execution limit")

// ---- scenarios ---------------------------------------------------------------------

type c05Call struct {
	name string
	// text is the structure the call should yield ("" = none/any)
	text string
	do   func(zctx *zed.Context) (zed.Type, error)
}

func c05Calls() map[string]func() c05Call {
	foreignTV := func(text string) []byte {
		f := zed.NewContext()
		t, err := zson.ParseType(f, text)
		if err != nil {
			panic(err)
		}
		return append([]byte(nil), zed.EncodeTypeValue(t)...)
	}
	foreign := func(text string) zed.Type {
		f := zed.NewContext()
		t, err := zson.ParseType(f, text)
		if err != nil {
			panic(err)
		}
		return t
	}
	mk := map[string]func() c05Call{}
	add := func(name, text string, do func(zctx *zed.Context) (zed.Type, error)) {
		mk[name] = func() c05Call { return c05Call{name, text, do} }
	}
	rec := "{a:int64,b:string}"
	add("LookupTypeRecord(rec)", rec, func(z *zed.Context) (zed.Type, error) {
		return z.LookupTypeRecord([]zed.Field{{Name: "a", Type: zed.TypeInt64}, {Name: "b", Type: zed.TypeString}})
	})
	add("LookupByValue(rec)", rec, func(z *zed.Context) (zed.Type, error) { return z.LookupByValue(foreignTV(rec)) })
	add("TranslateType(rec)", rec, func(z *zed.Context) (zed.Type, error) { return z.TranslateType(foreign(rec)) })
	add("ParseType(rec)", rec, func(z *zed.Context) (zed.Type, error) { return zson.ParseType(z, rec) })
	nested := "{x:[{a:int64,b:string}],y:|{string:(int64,string)}|}"
	add("TranslateType(nested)", nested, func(z *zed.Context) (zed.Type, error) { return z.TranslateType(foreign(nested)) })
	add("LookupByValue(nested)", nested, func(z *zed.Context) (zed.Type, error) { return z.LookupByValue(foreignTV(nested)) })
	add("LookupTypeValue(nested)", "", func(z *zed.Context) (zed.Type, error) {
		v := z.LookupTypeValue(foreign(nested))
		t, _ := z.DecodeTypeValue(v.Bytes())
		return t, nil
	})
	add("LookupTypeArray(int64)", "[int64]", func(z *zed.Context) (zed.Type, error) { return z.LookupTypeArray(zed.TypeInt64), nil })
	add("LookupTypeSet(int64)", "|[int64]|", func(z *zed.Context) (zed.Type, error) { return z.LookupTypeSet(zed.TypeInt64), nil })
	add("LookupTypeMap(string,int64)", "|{string:int64}|", func(z *zed.Context) (zed.Type, error) {
		return z.LookupTypeMap(zed.TypeString, zed.TypeInt64), nil
	})
	add("LookupTypeError(string)", "error(string)", func(z *zed.Context) (zed.Type, error) { return z.LookupTypeError(zed.TypeString), nil })
	add("LookupTypeEnum(x,y)", "enum(x,y)", func(z *zed.Context) (zed.Type, error) { return z.LookupTypeEnum([]string{"x", "y"}), nil })
	add("LookupTypeUnion(int64,string)", "(int64,string)", func(z *zed.Context) (zed.Type, error) {
		return z.LookupTypeUnion([]zed.Type{zed.TypeInt64, zed.TypeString}), nil
	})
	add("LookupTypeUnion(string,int64)", "(int64,string)", func(z *zed.Context) (zed.Type, error) {
		return z.LookupTypeUnion([]zed.Type{zed.TypeString, zed.TypeInt64}), nil
	})
	add("LookupTypeNamed(n,int64)", "n=int64", func(z *zed.Context) (zed.Type, error) { return z.LookupTypeNamed("n", zed.TypeInt64) })
	add("LookupTypeNamed(n,string)", "n=string", func(z *zed.Context) (zed.Type, error) { return z.LookupTypeNamed("n", zed.TypeString) })
	add("ParseType(n=int64)", "n=int64", func(z *zed.Context) (zed.Type, error) { return zson.ParseType(z, "n=int64") })
	add("LookupTypeDef(n)", "", func(z *zed.Context) (zed.Type, error) {
		if t := z.LookupTypeDef("n"); t != nil {
			return t, nil
		}
		return nil, nil
	})
	add("LookupByValue(array-of-rec)", "[{a:int64,b:string}]", func(z *zed.Context) (zed.Type, error) {
		return z.LookupByValue(foreignTV("[{a:int64,b:string}]"))
	})
	return mk
}

func c05Scenarios() [][]string {
	sc := [][]string{
		{"LookupTypeRecord(rec)", "LookupTypeRecord(rec)"},
		{"LookupTypeRecord(rec)", "LookupByValue(rec)"},
		{"LookupByValue(rec)", "LookupByValue(rec)"},
		{"TranslateType(rec)", "ParseType(rec)"},
		{"LookupByValue(rec)", "LookupByValue(array-of-rec)"},
		{"TranslateType(nested)", "TranslateType(nested)"},
		{"LookupByValue(nested)", "LookupTypeValue(nested)"},
		{"LookupTypeValue(nested)", "LookupTypeValue(nested)"},
		{"LookupTypeArray(int64)", "LookupTypeArray(int64)"},
		{"LookupTypeSet(int64)", "LookupTypeSet(int64)"},
		{"LookupTypeMap(string,int64)", "LookupTypeMap(string,int64)"},
		{"LookupTypeError(string)", "LookupTypeError(string)"},
		{"LookupTypeEnum(x,y)", "LookupTypeEnum(x,y)"},
		{"LookupTypeUnion(int64,string)", "LookupTypeUnion(string,int64)"},
		{"LookupTypeNamed(n,int64)", "LookupTypeNamed(n,int64)"},
		{"LookupTypeNamed(n,int64)", "LookupTypeNamed(n,string)"},
		{"LookupTypeNamed(n,int64)", "ParseType(n=int64)"},
		{"LookupTypeNamed(n,int64)", "LookupTypeNamed(n,string)", "LookupTypeDef(n)"},
		{"LookupTypeRecord(rec)", "LookupByValue(rec)", "TranslateType(rec)"},
		{"LookupTypeRecord(rec)", "LookupTypeRecord(rec)", "LookupTypeRecord(rec)"},
		{"LookupByValue(rec)", "LookupByValue(array-of-rec)", "LookupTypeRecord(rec)"},
	}
	if rep.Thorough() {
		sc = append(sc,
			[]string{"TranslateType(nested)", "LookupByValue(nested)", "LookupTypeRecord(rec)"},
			[]string{"LookupByValue(nested)", "LookupTypeValue(nested)", "LookupTypeUnion(string,int64)"},
			[]string{"LookupTypeNamed(n,int64)", "ParseType(n=int64)", "LookupTypeNamed(n,string)"},
			[]string{"LookupTypeArray(int64)", "LookupTypeSet(int64)", "LookupTypeArray(int64)"},
		)
	}
	return sc
}

func init() {
	c05Concurrent = func(run *rep.Run) {
		calls := c05Calls()
		var totalExecs, totalPoints int64
		var minOutcomes = -1
		for _, names := range c05Scenarios() {
			var zctx *zed.Context
			var cs []c05Call
			mk := func() []*vsThread {
				zctx = zed.NewContext()
				cs = nil
				var ts []*vsThread
				for i, n := range names {
					c := calls[n]()
					cs = append(cs, c)
					ts = append(ts, &vsThread{name: fmt.Sprintf("T%d", i), body: func() any {
						t, err := c.do(zctx)
						if err != nil {
							return err
						}
						return t
					}})
				}
				return ts
			}
			outcomes := map[string]bool{}
			check := func(s *vsSched) string {
				// results: each thread's type
				var got []zed.Type
				for i, t := range s.threads {
					switch r := t.result.(type) {
					case error:
						return fmt.Sprintf("%s fails: %v", cs[i].name, r)
					case zed.Type:
						got = append(got, r)
					default:
						got = append(got, nil)
					}
				}
				var ids []string
				for i, t := range got {
					if t == nil {
						ids = append(ids, "nil")
						continue
					}
					ids = append(ids, fmt.Sprint(zed.TypeID(t)))
					if cs[i].text != "" {
						want, err := zson.ParseType(zed.NewContext(), cs[i].text)
						if err != nil {
							return "harness: " + err.Error()
						}
						if !gen.TypeEq(t, want) {
							return fmt.Sprintf("I0: %s yields %s", cs[i].name, zson.FormatType(t))
						}
						// I2: the context's type value for it is the canonical one
						fz := zed.NewContext()
						ft, _ := zson.ParseType(fz, cs[i].text)
						if !bytes.Equal(zctx.LookupTypeValue(t).Bytes(), fz.LookupTypeValue(ft).Bytes()) {
							return fmt.Sprintf("I2: type value of the result of %s is not the canonical encoding", cs[i].name)
						}
						// a later sequential lookup answers the same object
						again, err := zson.ParseType(zctx, cs[i].text)
						if err != nil || again != t {
							if _, named := t.(*zed.TypeNamed); !named {
								return fmt.Sprintf("I1: %s returned an object (id %d) that a later lookup of the same structure does not return (id %d)", cs[i].name, zed.TypeID(t), zed.TypeID(again))
							}
						}
					}
					for j, u := range got[:i] {
						if u == nil {
							continue
						}
						eq := gen.TypeEq(t, u)
						if eq != (t == u) {
							return fmt.Sprintf("I1: %s and %s: structurally equal=%v, same object=%v (ids %d, %d)", cs[j].name, cs[i].name, eq, t == u, zed.TypeID(u), zed.TypeID(t))
						}
						if (t == u) != (zed.TypeID(t) == zed.TypeID(u)) {
							return fmt.Sprintf("I1: %s and %s: same object=%v but ids %d, %d", cs[j].name, cs[i].name, t == u, zed.TypeID(u), zed.TypeID(t))
						}
					}
					if id := zed.TypeID(t); id >= zed.IDTypeComplex {
						if back, err := zctx.LookupType(id); err != nil || back != t {
							return fmt.Sprintf("I1: LookupType(id %d of the result of %s) returns another object (%v)", id, cs[i].name, err)
						}
					}
				}
				// every id of the context maps to one structure, and no two ids to the same structure
				seen := map[string]int{}
				for id := zed.IDTypeComplex; ; id++ {
					t, err := zctx.LookupType(id)
					if err != nil {
						break
					}
					key := zson.FormatType(t)
					if _, named := t.(*zed.TypeNamed); named {
						continue // a name may be rebound; two bindings are two structures
					}
					if prev, dup := seen[key]; dup {
						return fmt.Sprintf("I1: ids %d and %d of one context both denote %s", prev, id, key)
					}
					seen[key] = id
				}
				outcomes[strings.Join(ids, ",")] = true
				return ""
			}
			onFail := func(msg string, s *vsSched) {
				inv := strings.Fields(msg)[0]
				var kinds []string
				for _, n := range names {
					kinds = append(kinds, strings.Split(n, "(")[0])
				}
				sort.Strings(kinds)
				run.Violation(fmt.Sprintf("concurrent invariant=%s calls=%s", strings.TrimSuffix(inv, ":"), strings.Join(uniq(kinds), "+")),
					map[string]any{"scenario": names, "schedule": append([]string(nil), s.trace...), "choices": append([]int(nil), s.choices...), "failure": msg})
			}
			// Unbounded first; scenarios whose threads take many locks are cut off at
			// a budget of executions and redone with a preemption bound.
			bound := -1
			if rep.EnvInt("VERIF_BOUND") > 0 {
				bound = rep.EnvInt("VERIF_BOUND")
			}
			execs, points, cut := vsExploreCapped(mk, bound, check, onFail)
			totalExecs += execs
			totalPoints += points
			if cut {
				run.Add("concurrent_scenarios_complete_only_up_to_the_preemption_bound", 1)
			} else {
				run.Add("concurrent_scenarios_with_every_interleaving_explored", 1)
			}
			if minOutcomes < 0 || len(outcomes) < minOutcomes {
				minOutcomes = len(outcomes)
			}
			run.Eval("concurrent " + strings.Join(names, " || "))
			run.Add("concurrent_scenarios", 1)
		}
		run.Set("schedules", totalExecs)
		run.Set("transitions", totalPoints)
		run.Set("concurrent_rule", "2-3 threads, one Context call each on a shared fresh context (record/array/set/map/error/enum/union/named lookups, LookupByValue, TranslateType, LookupTypeValue, ParseType, LookupTypeDef, for the same and for overlapping structures); the Context's mutex is replaced by a shim (build overlay generated from the working tree) so that a thread stops before every Lock/RLock; every interleaving is enumerated depth-first without a preemption bound; after each complete interleaving: no deadlock or panic, each result denotes the requested structure, structurally equal <=> same object <=> same id across results, LookupType(id) returns the object, a later lookup returns the same object, the type value is canonical, and no two ids of the context denote one structure")
	}
}
