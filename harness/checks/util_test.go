package checks

import (
	"fmt"
	"strings"
	"testing"
	"testing/synctest"
)

// bubble runs f inside a synctest bubble: time is fake (sleeps and timer
// back-offs in the code under test cost nothing and are deterministic).  It
// reports whether goroutines were left durably blocked when f returned (the
// runtime detects that as a bubble deadlock); other panics propagate.
func bubble(t *testing.T, f func()) (leaked bool) {
	defer func() {
		if p := recover(); p != nil {
			if strings.Contains(fmt.Sprint(p), "blocked goroutines remain") {
				leaked = true
				return
			}
			panic(p)
		}
	}()
	synctest.Test(t, func(t *testing.T) { f() })
	return false
}
