package checks

import (
	"fmt"
	"runtime"
	"strings"
	"sync"
	"testing"
	"testing/synctest"
)

// bubble runs f inside a synctest bubble: time is fake (sleeps and timer
// back-offs in the code under test cost nothing and are deterministic).  It
// reports whether goroutines were left durably blocked when f returned (the
// runtime detects that as a bubble deadlock); other panics propagate.
func bubble(t *testing.T, f func()) (leaked bool) {
	defer func() {
		if p := recover(); p != nil {
			if strings.Contains(fmt.Sprint(p), "blocked goroutines remain") {
				leaked = true
				return
			}
			panic(p)
		}
	}()
	synctest.Test(t, func(t *testing.T) { f() })
	return false
}

// parallel runs f(i) for i in [0,n) on all cores.
func parallel(n int, f func(i int)) {
	workers := runtime.NumCPU()
	var wg sync.WaitGroup
	ch := make(chan int, 64)
	for w := 0; w < workers; w++ {
		wg.Add(1)
		go func() {
			defer wg.Done()
			for i := range ch {
				f(i)
			}
		}()
	}
	for i := 0; i < n; i++ {
		ch <- i
	}
	close(ch)
	wg.Wait()
}
