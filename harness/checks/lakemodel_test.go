package checks

import (
	"bytes"
	"context"
	"fmt"
	"sort"
	"strings"

	zed "github.com/brimdata/super"
	"github.com/brimdata/super/lake"
	"github.com/brimdata/super/lake/commits"
	"github.com/brimdata/super/lake/data"
	"github.com/brimdata/super/lake/seekindex"
	"github.com/brimdata/super/order"
	"github.com/brimdata/super/zbuf"
	"github.com/brimdata/super/zio/zngio"
	"github.com/brimdata/super/zson"
	"github.com/segmentio/ksuid"
	"go.uber.org/zap"

	"verif/lk"
	"verif/vstore"
)

// ---- reference model of one pool (boring on purpose) ---------------------------

type mObj struct {
	ID   int
	Vals []string // values as ZSON, in stored order
	Real string   // real object id (not part of the canonical form)
}

type mCommit struct {
	ID     int
	Parent int // 0 = none
	Adds   []int
	Dels   []int
	AddVec []int
	DelVec []int
	Real   string
}

type mLake struct {
	Key      string // pool key spec, e.g. "k:asc"
	Objs     map[int]*mObj
	Commits  map[int]*mCommit
	Branches map[string]int // name → tip commit id (0 = empty)
	Vacuumed map[int]bool   // objects whose files were removed
	nextObj  int
	nextCmt  int
}

func newModel(key string) *mLake {
	return &mLake{Key: key, Objs: map[int]*mObj{}, Commits: map[int]*mCommit{}, Branches: map[string]int{"main": 0}, Vacuumed: map[int]bool{}}
}

func (m *mLake) clone() *mLake {
	c := &mLake{Key: m.Key, Objs: map[int]*mObj{}, Commits: map[int]*mCommit{}, Branches: map[string]int{}, Vacuumed: map[int]bool{}, nextObj: m.nextObj, nextCmt: m.nextCmt}
	for k, v := range m.Objs {
		c.Objs[k] = v // immutable once created
	}
	for k, v := range m.Commits {
		c.Commits[k] = v
	}
	for k, v := range m.Branches {
		c.Branches[k] = v
	}
	for k, v := range m.Vacuumed {
		c.Vacuumed[k] = v
	}
	return c
}

// chain returns commit ids root→tip.
func (m *mLake) chain(tip int) []int {
	var out []int
	for c := tip; c != 0; c = m.Commits[c].Parent {
		out = append(out, c)
	}
	for i, j := 0, len(out)-1; i < j; i, j = i+1, j-1 {
		out[i], out[j] = out[j], out[i]
	}
	return out
}

// snap replays the chain: object set and vector set at a commit.
func (m *mLake) snap(tip int) (objs map[int]bool, vecs map[int]bool) {
	objs, vecs = map[int]bool{}, map[int]bool{}
	for _, c := range m.chain(tip) {
		cm := m.Commits[c]
		for _, o := range cm.Dels {
			delete(objs, o)
		}
		for _, o := range cm.Adds {
			objs[o] = true
		}
		for _, o := range cm.DelVec {
			delete(vecs, o)
		}
		for _, o := range cm.AddVec {
			vecs[o] = true
		}
	}
	return
}

// objList returns the objects of a commit in canonical order (by contents,
// then creation).
func (m *mLake) objList(tip int) []*mObj {
	objs, _ := m.snap(tip)
	var out []*mObj
	for id := range objs {
		out = append(out, m.Objs[id])
	}
	sort.Slice(out, func(i, j int) bool {
		a, b := strings.Join(out[i].Vals, ","), strings.Join(out[j].Vals, ",")
		if a != b {
			return a < b
		}
		return out[i].ID < out[j].ID
	})
	return out
}

func (m *mLake) values(tip int) []string {
	var out []string
	for _, o := range m.objList(tip) {
		out = append(out, o.Vals...)
	}
	sort.Strings(out)
	return out
}

func (m *mLake) newCommit(branch string, c *mCommit) *mCommit {
	m.nextCmt++
	c.ID = m.nextCmt
	c.Parent = m.Branches[branch]
	m.Commits[c.ID] = c
	m.Branches[branch] = c.ID
	return c
}

func (m *mLake) newObj(vals []string, real string) *mObj {
	m.nextObj++
	o := &mObj{ID: m.nextObj, Vals: vals, Real: real}
	m.Objs[o.ID] = o
	return o
}

// canon renders the model modulo ids.
func (m *mLake) canon() string {
	cnum := map[int]int{}
	onum := map[int]int{}
	var b strings.Builder
	names := make([]string, 0, len(m.Branches))
	for n := range m.Branches {
		names = append(names, n)
	}
	sort.Strings(names)
	objName := func(id int) int {
		if n, ok := onum[id]; ok {
			return n
		}
		onum[id] = len(onum) + 1
		return onum[id]
	}
	byVals := func(ids []int) []int {
		out := append([]int(nil), ids...)
		sort.Slice(out, func(i, j int) bool {
			a, c := strings.Join(m.Objs[out[i]].Vals, ","), strings.Join(m.Objs[out[j]].Vals, ",")
			if a != c {
				return a < c
			}
			return out[i] < out[j]
		})
		return out
	}
	nums := func(ids []int) []int {
		var out []int
		for _, id := range ids {
			out = append(out, objName(id))
		}
		sort.Ints(out)
		return out
	}
	fmt.Fprintf(&b, "key=%s;", m.Key)
	for _, n := range names {
		for _, c := range m.chain(m.Branches[n]) {
			if _, ok := cnum[c]; ok {
				continue
			}
			cnum[c] = len(cnum) + 1
			cm := m.Commits[c]
			fmt.Fprintf(&b, "c%d<-c%d[", cnum[c], cnum[cm.Parent])
			// deletions refer to earlier objects: name them first
			fmt.Fprintf(&b, "del%v", nums(cm.Dels))
			for _, o := range byVals(cm.Adds) {
				fmt.Fprintf(&b, "+o%d{%s}", objName(o), strings.Join(m.Objs[o].Vals, ","))
			}
			fmt.Fprintf(&b, "av%v dv%v];", nums(cm.AddVec), nums(cm.DelVec))
		}
	}
	for _, n := range names {
		fmt.Fprintf(&b, "%s=c%d;", n, cnum[m.Branches[n]])
	}
	var vac []int
	for o := range m.Vacuumed {
		vac = append(vac, objName(o))
	}
	sort.Ints(vac)
	fmt.Fprintf(&b, "vac%v", vac)
	return b.String()
}

// ---- extraction of the real state ------------------------------------------------

type rObj struct {
	ID     string
	Meta   data.Object
	Vals   []string // nil if the file is gone
	Exists bool
	SeekOK string // "" or description of a seek-index defect
}

type rCommit struct {
	ID     string
	Parent string
	Adds   []string
	Dels   []string
	AddVec []string
	DelVec []string
}

type rLake struct {
	PoolID   ksuid.KSUID
	Cfg      order.SortKeys
	Branches map[string]string
	Commits  map[string]*rCommit
	Objs     map[string]*rObj
	Files    []string // lake-relative data/commit file names of the pool
}

func nilID(id ksuid.KSUID) string {
	if id == ksuid.Nil {
		return ""
	}
	return id.String()
}

func readZNG(b []byte) ([]zed.Value, []string, error) {
	zctx := zed.NewContext()
	r := zngio.NewReader(zctx, bytes.NewReader(b))
	defer r.Close()
	var vals []zed.Value
	var strs []string
	for {
		v, err := r.Read()
		if err != nil {
			return vals, strs, err
		}
		if v == nil {
			return vals, strs, nil
		}
		vals = append(vals, v.Copy())
		strs = append(strs, zson.FormatValue(*v))
	}
}

// extractReal reads the pool's complete state from a storage image through a
// cold handle plus direct file reads.
func extractReal(ctx context.Context, st *vstore.Store, pool string) (*rLake, error) {
	l, err := lk.Open(ctx, lk.NewEngine(st, "extract", nil))
	if err != nil {
		return nil, err
	}
	id, err := l.Root.PoolID(ctx, pool)
	if err != nil {
		return nil, err
	}
	p, err := l.Root.OpenPool(ctx, id)
	if err != nil {
		return nil, err
	}
	r := &rLake{PoolID: id, Cfg: p.SortKeys, Branches: map[string]string{}, Commits: map[string]*rCommit{}, Objs: map[string]*rObj{}}
	brs, err := p.ListBranches(ctx)
	if err != nil {
		return nil, err
	}
	cs, err := commits.OpenStore(l.Eng, zap.NewNop(), p.Path.JoinPath(lake.CommitsTag))
	if err != nil {
		return nil, err
	}
	for _, b := range brs {
		if _, dup := r.Branches[b.Name]; dup {
			return nil, fmt.Errorf("duplicate branch name %q", b.Name)
		}
		r.Branches[b.Name] = nilID(b.Commit)
		for at := b.Commit; at != ksuid.Nil; {
			if _, ok := r.Commits[at.String()]; ok {
				break
			}
			o, err := cs.Get(ctx, at)
			if err != nil {
				return nil, fmt.Errorf("commit %s of branch %s: %w", at, b.Name, err)
			}
			rc := &rCommit{ID: at.String(), Parent: nilID(o.Parent)}
			for _, a := range o.Actions {
				switch a := a.(type) {
				case *commits.Add:
					rc.Adds = append(rc.Adds, a.Object.ID.String())
					if _, ok := r.Objs[a.Object.ID.String()]; !ok {
						r.Objs[a.Object.ID.String()] = &rObj{ID: a.Object.ID.String(), Meta: a.Object}
					}
				case *commits.Delete:
					rc.Dels = append(rc.Dels, a.ID.String())
				case *commits.AddVector:
					rc.AddVec = append(rc.AddVec, a.ID.String())
				case *commits.DeleteVector:
					rc.DelVec = append(rc.DelVec, a.ID.String())
				}
			}
			r.Commits[rc.ID] = rc
			at = o.Parent
		}
	}
	prefix := lk.RootPath + "/" + id.String() + "/"
	for _, path := range st.Paths() {
		if strings.HasPrefix(path, prefix) {
			r.Files = append(r.Files, strings.TrimPrefix(path, prefix))
		}
	}
	for _, o := range r.Objs {
		b, ok := st.Read(prefix + "data/" + o.ID + ".zng")
		o.Exists = ok
		if !ok {
			continue
		}
		vals, strs, err := readZNG(b)
		if err != nil {
			return nil, fmt.Errorf("object %s unreadable: %w", o.ID, err)
		}
		o.Vals = strs
		if o.Vals == nil {
			o.Vals = []string{}
		}
		o.SeekOK = auditObject(p, o, b, vals, st, prefix)
	}
	return r, nil
}

// auditObject checks that the object's recorded count, size and key range are
// those of the values its file holds, that the values are in pool-key order,
// and that the seek index tiles the file.
func auditObject(p *lake.Pool, o *rObj, file []byte, vals []zed.Value, st *vstore.Store, prefix string) string {
	zctx := zed.NewContext()
	cmp := zbuf.NewComparatorNullsMax(zctx, p.SortKeys)
	key := p.SortKeys.Primary()
	keyOf := func(v zed.Value) zed.Value { return v.DerefPath(key.Key).MissingAsNull() }
	if uint64(len(vals)) != o.Meta.Count {
		return fmt.Sprintf("count recorded %d, file holds %d", o.Meta.Count, len(vals))
	}
	if int64(len(file)) != o.Meta.Size {
		return fmt.Sprintf("size recorded %d, file has %d bytes", o.Meta.Size, len(file))
	}
	if len(vals) == 0 {
		return "empty object"
	}
	for i := 1; i < len(vals); i++ {
		if cmp.Compare(vals[i-1], vals[i]) > 0 {
			return fmt.Sprintf("values %d,%d out of pool-key order", i-1, i)
		}
	}
	first, last := keyOf(vals[0]), keyOf(vals[len(vals)-1])
	lo, hi := first, last
	if key.Order == order.Desc {
		lo, hi = last, first
	}
	if zson.FormatValue(lo) != zson.FormatValue(o.Meta.Min) || zson.FormatValue(hi) != zson.FormatValue(o.Meta.Max) {
		return fmt.Sprintf("key range recorded [%s,%s], values span [%s,%s]", zson.FormatValue(o.Meta.Min), zson.FormatValue(o.Meta.Max), zson.FormatValue(lo), zson.FormatValue(hi))
	}
	// seek index
	sb, ok := st.Read(prefix + "data/" + o.ID + "-seek.zng")
	if !ok {
		return "seek index file missing"
	}
	svals, _, err := readZNG(sb)
	if err != nil {
		return "seek index unreadable: " + err.Error()
	}
	u := zson.NewZNGUnmarshaler()
	var off, voff uint64
	vcmp := cmpKeys(key.Order)
	for i, sv := range svals {
		var e seekindex.Entry
		if err := u.Unmarshal(sv, &e); err != nil {
			return "seek index entry: " + err.Error()
		}
		if e.Offset != off || e.ValOff != voff {
			return fmt.Sprintf("seek entry %d not contiguous: offset %d (want %d) val_off %d (want %d)", i, e.Offset, off, e.ValOff, voff)
		}
		if e.ValCnt == 0 || e.ValOff+e.ValCnt > uint64(len(vals)) {
			return fmt.Sprintf("seek entry %d covers values [%d,%d) of %d", i, e.ValOff, e.ValOff+e.ValCnt, len(vals))
		}
		// the slice must decode on its own and hold exactly those values
		if e.Offset+e.Length > uint64(len(file)) {
			return fmt.Sprintf("seek entry %d beyond file", i)
		}
		_, sl, err := readZNG(file[e.Offset : e.Offset+e.Length])
		if err != nil || uint64(len(sl)) != e.ValCnt {
			return fmt.Sprintf("seek entry %d: byte range decodes to %d values (err %v), entry says %d", i, len(sl), err, e.ValCnt)
		}
		for j := e.ValOff; j < e.ValOff+e.ValCnt; j++ {
			k := keyOf(vals[j])
			if vcmp(e.Min, k) > 0 || vcmp(k, e.Max) > 0 {
				return fmt.Sprintf("seek entry %d [%s,%s] does not bound key %s", i, zson.FormatValue(e.Min), zson.FormatValue(e.Max), zson.FormatValue(k))
			}
		}
		off += e.Length
		voff += e.ValCnt
	}
	if off != uint64(len(file)) || voff != uint64(len(vals)) {
		return fmt.Sprintf("seek index covers %d bytes / %d values of %d / %d", off, voff, len(file), len(vals))
	}
	return ""
}
