package checks

import (
	"bytes"
	"fmt"
	"strings"
	"sync"
	"testing"

	zed "github.com/brimdata/super"
	"github.com/brimdata/super/zcode"
	"github.com/brimdata/super/zio/zngio"
	"github.com/brimdata/super/zson"

	"verif/gen"
	"verif/rep"
)

// ---- C05: types are canonical within a context and portable across contexts ---------

func c05Types() []string {
	leaves := []string{"int64", "string"}
	var d1 []string
	for _, l := range leaves {
		d1 = append(d1, "{a:"+l+"}", "["+l+"]", "|["+l+"]|", "error("+l+")", "n="+l, "m="+l)
	}
	d1 = append(d1, "{a:int64,b:string}", "{b:string,a:int64}", "|{string:int64}|", "|{int64:string}|", "(int64,string)", "(string,int64)", "(int64,string,bool)", "(bool,string,int64)",
		"enum(x,y)", "enum(y,x)", "{}", "null")
	out := append([]string{}, leaves...)
	out = append(out, d1...)
	// depth 2 over a few wrappers
	for _, t := range []string{"{a:int64}", "n=int64", "n=string", "(int64,string)", "(string,int64)", "[int64]", "m=int64"} {
		out = append(out, "{f:"+t+"}", "["+t+"]", "|{string:"+t+"}|", "("+t+",bool)", "(bool,"+t+")", "error("+t+")", "o="+t)
	}
	// a name bound, rebound to another type inside every kind of nested type, then used again
	// with its first binding (the serialised form must keep the bindings apart)
	for _, w := range []string{"{z:n=string}", "[n=string]", "|[n=string]|", "|{n=string:int64}|", "|{int64:n=string}|", "(n=string,bool)", "error(n=string)", "o=n=string"} {
		out = append(out, "{a:n=int64,b:"+w+",c:n=int64}")
	}
	// a named type used twice, second time by reference; same name rebound later in the history
	out = append(out, "{x:n=int64,y:n}", "{x:n=string,y:n}", "[(n=int64,string)]", "{x:m=int64,y:n=string}")
	return out
}

// c05Concurrent is set by c05conc_test.go (build tag vsync, see bin/check).
var c05Concurrent func(run *rep.Run)

var c05Routes = []string{"ParseType", "TranslateType", "LookupByValue", "zngio.Decode"}

// c05Make creates the type denoted by text in zctx through the given route.
// For LookupByValue the byte slice handed to the context is returned so the
// caller can overwrite it afterwards.
func c05Make(zctx *zed.Context, text, route string) (zed.Type, []byte, error) {
	foreign := zed.NewContext()
	switch route {
	case "ParseType":
		t, err := zson.ParseType(zctx, text)
		return t, nil, err
	case "TranslateType":
		ft, err := zson.ParseType(foreign, text)
		if err != nil {
			return nil, nil, err
		}
		t, err := zctx.TranslateType(ft)
		return t, nil, err
	case "LookupByValue":
		ft, err := zson.ParseType(foreign, text)
		if err != nil {
			return nil, nil, err
		}
		tv := append([]byte(nil), zed.EncodeTypeValue(ft)...)
		t, err := zctx.LookupByValue(tv)
		return t, tv, err
	default:
		ft, err := zson.ParseType(foreign, text)
		if err != nil {
			return nil, nil, err
		}
		var buf bytes.Buffer
		w := zngio.NewWriter(nopCloser{&buf})
		if err := w.Write(zed.NewValue(ft, nil)); err != nil {
			return nil, nil, err
		}
		w.Close()
		r := zngio.NewReaderWithOpts(zctx, bytes.NewReader(buf.Bytes()), zngio.ReaderOpts{Threads: 1})
		defer r.Close()
		v, err := r.Read()
		if err != nil || v == nil {
			return nil, nil, fmt.Errorf("decode: %v", err)
		}
		return v.Type(), nil, nil
	}
}

type c05Made struct {
	text  string
	route string
	typ   zed.Type
	tv    []byte // LookupTypeValue bytes observed right after creation (copied)
	fresh []byte // encoding of the same structure built alone in a fresh context
	ftype zed.Type
}

// c05History runs one creation history and checks the invariants after each step.
func c05History(steps [][2]string) string {
	zctx := zed.NewContext()
	var made []c05Made
	for si, st := range steps {
		text, route := st[0], st[1]
		t, handed, err := c05Make(zctx, text, route)
		if err != nil {
			return fmt.Sprintf("step %d: creating %s via %s fails: %v", si, text, route, err)
		}
		fz := zed.NewContext()
		ft, err := zson.ParseType(fz, text)
		if err != nil {
			return "harness: " + err.Error()
		}
		// the type denotes what was asked for
		if !gen.TypeEq(t, ft) {
			return fmt.Sprintf("I0 step %d: %s via %s yields %s", si, text, route, zson.FormatType(t))
		}
		tv := zctx.LookupTypeValue(t)
		m := c05Made{text: text, route: route, typ: t, tv: append([]byte(nil), tv.Bytes()...), fresh: append([]byte(nil), fz.LookupTypeValue(ft).Bytes()...), ftype: ft}
		// I2: the type value is a pure function of the structure
		if !bytes.Equal(m.tv, m.fresh) {
			return fmt.Sprintf("I2 step %d: type value of %s (via %s) differs from the value of the same structure built alone in a fresh context", si, text, route)
		}
		// the caller reuses the buffer it handed to LookupByValue
		for i := range handed {
			handed[i] = 0xAA
		}
		made = append(made, m)
		for i, a := range made {
			// I2: a type value obtained from the context never changes
			if cur := zctx.LookupTypeValue(a.typ).Bytes(); !bytes.Equal(cur, a.tv) {
				return fmt.Sprintf("I2 after step %d: type value of %s (created at step %d via %s) changed", si, a.text, i, a.route)
			}
			// I1: structural equality <=> same object <=> same id
			for j, b := range made {
				eq := gen.TypeEq(a.ftype, b.ftype)
				if eq != (a.typ == b.typ) {
					return fmt.Sprintf("I1 after step %d: %s (step %d via %s) and %s (step %d via %s): structurally equal=%v, same object=%v", si, a.text, i, a.route, b.text, j, b.route, eq, a.typ == b.typ)
				}
				if (a.typ == b.typ) != (zed.TypeID(a.typ) == zed.TypeID(b.typ)) {
					return fmt.Sprintf("I1 after step %d: %s and %s: same object=%v but ids %d,%d", si, a.text, b.text, a.typ == b.typ, zed.TypeID(a.typ), zed.TypeID(b.typ))
				}
			}
			// id lookup returns the same object
			if id := zed.TypeID(a.typ); id >= zed.IDTypeComplex {
				if back, err := zctx.LookupType(id); err != nil || back != a.typ {
					return fmt.Sprintf("I1 after step %d: LookupType(id of %s) returns another object (%v)", si, a.text, err)
				}
			}
			// I3: to another context and back is the same object; decoding the value anywhere is structurally equal
			other := zed.NewContext()
			ot, err := other.TranslateType(a.typ)
			if err != nil || !gen.TypeEq(ot, a.ftype) {
				return fmt.Sprintf("I3 after step %d: translating %s to another context yields %v (%v)", si, a.text, ot, err)
			}
			back, err := zctx.TranslateType(ot)
			if err != nil || back != a.typ {
				return fmt.Sprintf("I3 after step %d: %s translated to another context and back is a different object", si, a.text)
			}
			dt, rest := zed.NewContext().DecodeTypeValue(append(zcode.Bytes(nil), a.tv...))
			if rest == nil || !gen.TypeEq(dt, a.ftype) {
				return fmt.Sprintf("I3 after step %d: decoding the type value of %s elsewhere yields a different structure", si, a.text)
			}
		}
	}
	return ""
}

func TestC05(t *testing.T) {
	run := rep.Start("C05", "model_checking")
	defer run.Finish(t)
	types := c05Types()
	var mu sync.Mutex
	report := func(msg string, steps [][2]string) {
		inv := strings.Fields(msg)[0]
		var routes []string
		for _, s := range steps {
			routes = append(routes, s[1])
		}
		mu.Lock()
		run.Violation(fmt.Sprintf("invariant=%s routes=%s", inv, strings.Join(uniq(routes), "+")), map[string]any{"history": steps, "failure": msg})
		mu.Unlock()
	}
	// all ordered pairs of types x all route pairs
	type job [][2]string
	var jobs []job
	for _, a := range types {
		for _, ra := range c05Routes {
			jobs = append(jobs, job{{a, ra}})
			for _, b := range types {
				for _, rb := range c05Routes {
					jobs = append(jobs, job{{a, ra}, {b, rb}})
				}
			}
		}
	}
	// triples over a core with rebinding and union orders
	core := []string{"n=int64", "n=string", "{x:n=int64,y:n}", "{x:n=string,y:n}", "(int64,string)", "(string,int64)", "{a:int64,b:string}", "[(n=int64,string)]", "o=n=int64", "{f:n=string}"}
	if rep.Thorough() {
		core = append(core, "m=int64", "{x:m=int64,y:n=string}", "enum(x,y)", "|{string:n=int64}|")
	}
	for _, a := range core {
		for _, b := range core {
			for _, c := range core {
				for r := 0; r < len(c05Routes)*len(c05Routes)*len(c05Routes); r++ {
					if !rep.Thorough() && r%5 != 0 {
						continue
					}
					jobs = append(jobs, job{{a, c05Routes[r%4]}, {b, c05Routes[(r/4)%4]}, {c, c05Routes[(r/16)%4]}})
				}
			}
		}
	}
	parallel(len(jobs), func(i int) {
		j := jobs[i]
		if msg := c05History(j); msg != "" {
			report(msg, j)
		}
		mu.Lock()
		run.Eval(fmt.Sprint(j))
		mu.Unlock()
	})
	run.Sample(map[string]any{"types": len(types), "routes": c05Routes, "histories": len(jobs), "example": jobs[len(jobs)/2]})
	// I4 directly: every member order of a union is one object
	zctx := zed.NewContext()
	members := []zed.Type{zed.TypeInt64, zed.TypeString, zed.TypeBool, zctx.LookupTypeArray(zed.TypeInt64)}
	var first zed.Type
	permute(len(members), func(p []int) {
		var ts []zed.Type
		for _, i := range p {
			ts = append(ts, members[i])
		}
		u := zctx.LookupTypeUnion(ts)
		if first == nil {
			first = u
		} else if u != first {
			run.Violation("invariant=I4 union-member-order", map[string]any{"order": p})
		}
		run.Eval(fmt.Sprint("union", p))
	})
	run.Set("exhaustive", true)
	run.Set("rule", "types: 88 types to depth 2 over every kind with two field names, two type names each bound to two inner types, references to an earlier binding, a name rebound inside each kind of nested type and then used again with its first binding, unions and enums in different member orders; histories: every single creation, every ordered pair of types x every pair of creation routes {zson.ParseType, TranslateType from a foreign context, LookupByValue of a foreign type value (whose buffer the caller then overwrites), decoding from a ZNG stream}, and triples over a 10-type core (rebinding of one name, union orders) x route triples (quick: every fifth). After every step: the type denotes the requested structure; structurally equal <=> same object <=> same id for all pairs created so far; the type value equals that of the same structure built alone in a fresh context and never changes afterwards; translation to another context and back returns the same object; decoding the type value elsewhere is structurally equal; all 24 member orders of a 4-member union give one object")
	if c05Concurrent != nil {
		c05Concurrent(run)
	} else {
		run.Assume("lock-level interleavings of concurrent Context calls were not explored in this run (the build overlay for context.go could not be applied); API-call-level orders are covered because histories are executed in every order")
	}
}

func uniq(ss []string) []string {
	seen := map[string]bool{}
	var out []string
	for _, s := range ss {
		if !seen[s] {
			seen[s] = true
			out = append(out, s)
		}
	}
	return out
}

func permute(n int, f func([]int)) {
	p := make([]int, n)
	for i := range p {
		p[i] = i
	}
	var rec func(k int)
	rec = func(k int) {
		if k == n {
			f(append([]int(nil), p...))
			return
		}
		for i := k; i < n; i++ {
			p[k], p[i] = p[i], p[k]
			rec(k + 1)
			p[k], p[i] = p[i], p[k]
		}
	}
	rec(0)
}
