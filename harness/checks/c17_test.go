package checks

import (
	"context"
	"encoding/json"
	"errors"
	"fmt"
	"os"
	"regexp"
	"strings"
	"testing"
	"time"

	"github.com/brimdata/super/lake"

	"verif/lk"
	"verif/rep"
	"verif/vstore"
)

// ---- C17: crash consistency -------------------------------------------------

type c17History struct {
	Name  string  `json:"name"`
	Setup []lk.Op `json:"setup"`
	X     lk.Op   `json:"x"`
	Quick bool    `json:"-"`
}

func ld(pool, branch, data string) lk.Op {
	return lk.Op{Kind: "load", Pool: pool, Branch: branch, Data: data}
}

func c17Histories() []c17History {
	mkp := lk.Op{Kind: "createpool", Pool: "p", Key: "k:asc"}
	mkq := lk.Op{Kind: "createpool", Pool: "q", Key: "k:asc", Thresh: 1, Stride: 1}
	l1 := ld("p", "main", `{k:1,v:"a"} {k:2,v:"b"}`)
	l2 := ld("p", "main", `{k:2,v:"c"} {k:3,v:"d"}`)
	l3 := ld("p", "main", `{k:5,v:"e"}`)
	mkb := lk.Op{Kind: "createbranch", Pool: "p", Branch: "main", Name: "b", At: -1}
	var many []lk.Op
	many = append(many, mkp)
	for i := 0; i < 11; i++ {
		many = append(many, ld("p", "main", fmt.Sprintf(`{k:%d,v:"m"}`, 10+i)))
	}
	hs := []c17History{
		{Name: "init", X: lk.Op{Kind: "init"}, Quick: true},
		{Name: "createpool", X: mkp, Quick: true},
		{Name: "createpool-second", Setup: []lk.Op{mkp, l1}, X: mkq},
		{Name: "renamepool", Setup: []lk.Op{mkp, l1}, X: lk.Op{Kind: "renamepool", Pool: "p", Name: "r"}, Quick: true},
		{Name: "droppool", Setup: []lk.Op{mkp, l1}, X: lk.Op{Kind: "droppool", Pool: "p"}, Quick: true},
		{Name: "createbranch", Setup: []lk.Op{mkp, l1}, X: mkb, Quick: true},
		{Name: "createbranch-empty", Setup: []lk.Op{mkp}, X: mkb},
		{Name: "dropbranch", Setup: []lk.Op{mkp, l1, mkb}, X: lk.Op{Kind: "dropbranch", Pool: "p", Branch: "b"}, Quick: true},
		{Name: "load-first", Setup: []lk.Op{mkp}, X: l1, Quick: true},
		{Name: "load-second", Setup: []lk.Op{mkp, l1}, X: l2, Quick: true},
		{Name: "load-3objects", Setup: []lk.Op{mkq}, X: ld("q", "main", `{k:1} {k:2} {k:3}`), Quick: true},
		{Name: "load-branch", Setup: []lk.Op{mkp, l1, mkb}, X: ld("p", "b", `{k:7,v:"x"}`)},
		{Name: "delete", Setup: []lk.Op{mkp, l1, l3}, X: lk.Op{Kind: "delete", Pool: "p", Branch: "main", Idx: []int{0}}, Quick: true},
		{Name: "deletewhere", Setup: []lk.Op{mkp, l1, l3}, X: lk.Op{Kind: "deletewhere", Pool: "p", Branch: "main", Name: "k==1"}, Quick: true},
		{Name: "deletewhere-whole", Setup: []lk.Op{mkp, l1, l3}, X: lk.Op{Kind: "deletewhere", Pool: "p", Branch: "main", Name: "k>=5"}},
		{Name: "compact", Setup: []lk.Op{mkp, l1, l2}, X: lk.Op{Kind: "compact", Pool: "p", Branch: "main", Idx: []int{0, 1}}, Quick: true},
		{Name: "compact-vec", Setup: []lk.Op{mkp, l1, l2}, X: lk.Op{Kind: "compact", Pool: "p", Branch: "main", Idx: []int{0, 1}, Vec: true}},
		{Name: "merge", Setup: []lk.Op{mkp, l1, mkb, ld("p", "b", `{k:7,v:"x"}`)}, X: lk.Op{Kind: "merge", Pool: "p", Branch: "main", Name: "b"}, Quick: true},
		{Name: "merge-diverged", Setup: []lk.Op{mkp, l1, mkb, ld("p", "b", `{k:7,v:"x"}`), l3}, X: lk.Op{Kind: "merge", Pool: "p", Branch: "main", Name: "b"}},
		{Name: "revert", Setup: []lk.Op{mkp, l1, l3}, X: lk.Op{Kind: "revert", Pool: "p", Branch: "main", Idx: []int{0}}, Quick: true},
		{Name: "addvec", Setup: []lk.Op{mkp, l1}, X: lk.Op{Kind: "addvec", Pool: "p", Branch: "main", Idx: []int{0}}, Quick: true},
		{Name: "delvec", Setup: []lk.Op{mkp, l1, {Kind: "addvec", Pool: "p", Branch: "main", Idx: []int{0}}}, X: lk.Op{Kind: "delvec", Pool: "p", Branch: "main", Idx: []int{0}}},
		{Name: "vacuum", Setup: []lk.Op{mkp, l1, l3, {Kind: "delete", Pool: "p", Branch: "main", Idx: []int{0}}}, X: lk.Op{Kind: "vacuum", Pool: "p", Branch: "main"}, Quick: true},
		{Name: "load-journal-snapshot", Setup: many, X: ld("p", "main", `{k:99,v:"z"}`), Quick: true},
	}
	return hs
}

var digitsRe = regexp.MustCompile(`/[0-9]+\.zng`)
var indexRe = regexp.MustCompile(`\[[0-9:]+\] with (length|capacity) [0-9]+`)

func pathClass(p string) string {
	p = rep.Normalize(p)
	p = digitsRe.ReplaceAllString(p, "/<n>.zng")
	return p
}

var poolNameRe = regexp.MustCompile(`(branches of|query) [a-z0-9@]+:`)

// symClass drops pool/branch names from a symptom so that the signature
// identifies the failing call site rather than the scenario's naming.
func symClass(s string) string {
	return poolNameRe.ReplaceAllString(s, "$1 <pool>:")
}

func errClass(err error) string {
	if err == nil {
		return "nil"
	}
	s := rep.Normalize(err.Error())
	s = digitsRe.ReplaceAllString(s, "/<n>.zng")
	s = indexRe.ReplaceAllString(s, "[#] with length #")
	return rep.Short(s, 160)
}

func openOrCreate(ctx context.Context, eng *vstore.Engine, allowCreate bool) (*lk.Lake, error) {
	l, err := lk.Open(ctx, eng)
	if err != nil && allowCreate && errors.Is(err, lake.ErrNotExist) {
		return lk.Create(ctx, eng)
	}
	return l, err
}

func applyX(ctx context.Context, s *vstore.Store, hook vstore.Hook, x lk.Op, rec *vstore.Recorder) error {
	eng := lk.NewEngine(s, "x", hook)
	if rec != nil {
		rec.Engine = eng
	}
	if x.Kind == "init" {
		if rec != nil {
			rec.Active = true
		}
		_, err := lk.Create(ctx, eng)
		return err
	}
	l, err := lk.Open(ctx, eng)
	if err != nil {
		return fmt.Errorf("open before X: %w", err)
	}
	if rec != nil {
		rec.Active = true
	}
	_, err = l.Apply(ctx, x)
	return err
}

func buildSetup(ctx context.Context, mode vstore.Mode, setup []lk.Op, needInit bool) (*vstore.Store, error) {
	s := vstore.NewStore(mode)
	if !needInit {
		return s, nil
	}
	l, err := lk.Create(ctx, lk.NewEngine(s, "setup", nil))
	if err != nil {
		return nil, err
	}
	for _, op := range setup {
		if _, err := l.Apply(ctx, op); err != nil {
			return nil, fmt.Errorf("setup %s: %w", op, err)
		}
	}
	return s, nil
}

func coldContents(ctx context.Context, s *vstore.Store) (lk.Contents, error) {
	l, err := lk.Open(ctx, lk.NewEngine(s, "obs", nil))
	if err != nil {
		return nil, err
	}
	return l.Contents(ctx)
}

// followUpOps are the steps of the fixed follow-up workload; each returns a
// symptom string ("" = ok).
func c17FollowUp(ctx context.Context, l *lk.Lake, x lk.Op, got lk.Contents, before, after string) string {
	// 1. If nothing of X is visible and X changes contents, X must be repeatable.
	cur := got
	if got.Canon() == before && before != after && x.Kind != "init" {
		if _, err := l.Apply(ctx, x); err != nil {
			return "followup-reapply: " + errClass(err)
		}
		c, err := l.Contents(ctx)
		if err != nil {
			return "followup-reapply-read: " + errClass(err)
		}
		if c.Canon() != after {
			return "followup-reapply: contents differ from the uninterrupted run"
		}
		cur = c
	}
	// 1b. After an interrupted vector add (or compaction writing vectors): give every object of
	// the branch a vector copy (again) and read the branch through the vector runtime, which the
	// optimizer chooses for these two query shapes once all objects have vectors.
	if x.Kind == "addvec" || (x.Kind == "compact" && x.Vec) {
		objs, err := l.Objects(ctx, x.Pool, x.Branch)
		if err != nil {
			return "followup-objects: " + errClass(err)
		}
		for _, o := range objs {
			if o.Vec {
				continue
			}
			if _, err := l.Apply(ctx, lk.Op{Kind: "addvec", Pool: x.Pool, Branch: x.Branch, IDs: []string{o.ID.String()}}); err != nil {
				return "followup-addvec: " + errClass(err)
			}
		}
		for _, q := range [][2]string{{"sum(k)", "sort k | sum(k)"}, {"count() by v", "sort k | count() by v"}} {
			vec, err := l.Query(ctx, fmt.Sprintf("from %s@%s | %s", x.Pool, x.Branch, q[0]))
			if err != nil {
				return "followup-vector-query: " + errClass(err)
			}
			seq, err := l.Query(ctx, fmt.Sprintf("from %s@%s | %s", x.Pool, x.Branch, q[1]))
			if err != nil {
				return "followup-query: " + errClass(err)
			}
			if !sameMultiset(vec, seq) {
				return "followup-vector-query: result differs from the row-wise read of the same branch"
			}
		}
	}
	// 2. Same pool and branch: load, read, delete what was loaded.
	pool, branch := x.Pool, x.Branch
	if x.Kind == "renamepool" {
		if _, ok := cur[x.Name]; ok {
			pool = x.Name
		}
	}
	if x.Kind == "createbranch" {
		branch = x.Name
	}
	if branch == "" {
		branch = "main"
	}
	if brs, ok := cur[pool]; ok {
		if prior, ok := brs[branch]; ok {
			if _, err := l.Apply(ctx, ld(pool, branch, `{k:1000,v:"followup"}`)); err != nil {
				return "followup-load: " + errClass(err)
			}
			vals, err := l.Query(ctx, fmt.Sprintf("from %s@%s", pool, branch))
			if err != nil {
				return "followup-query: " + errClass(err)
			}
			want := lk.Contents{"x": {"y": append(append([]string{}, prior...), `{k:1000,v:"followup"}`)}}
			have := lk.Contents{"x": {"y": vals}}
			if want.Canon() != have.Canon() {
				return "followup-query: loaded value missing or other data changed"
			}
			objs, err := l.Objects(ctx, pool, branch)
			if err != nil {
				return "followup-objects: " + errClass(err)
			}
			found := false
			for _, o := range objs {
				if o.Min == "1000" && o.Max == "1000" {
					found = true
					if _, err := l.Apply(ctx, lk.Op{Kind: "delete", Pool: pool, Branch: branch, IDs: []string{o.ID.String()}}); err != nil {
						return "followup-delete: " + errClass(err)
					}
				}
			}
			if !found {
				return "followup-objects: loaded object not listed"
			}
			vals, err = l.Query(ctx, fmt.Sprintf("from %s@%s", pool, branch))
			if err != nil {
				return "followup-query2: " + errClass(err)
			}
			want = lk.Contents{"x": {"y": prior}}
			have = lk.Contents{"x": {"y": vals}}
			if want.Canon() != have.Canon() {
				return "followup-query2: contents not restored after delete"
			}
		}
	}
	// 3. The lake-level tables stay usable.
	if _, err := l.Apply(ctx, lk.Op{Kind: "createpool", Pool: "zz", Key: "k:asc"}); err != nil {
		return "followup-createpool: " + errClass(err)
	}
	if _, err := l.Apply(ctx, ld("zz", "main", `{k:1}`)); err != nil {
		return "followup-load-newpool: " + errClass(err)
	}
	return ""
}

// c17Recover reopens the crashed image and checks it; returns symptom ("" = ok).
func c17Recover(ctx context.Context, s *vstore.Store, x lk.Op, before, after string, hook vstore.Hook, rec *vstore.Recorder) (symptom string) {
	defer func() {
		if p := recover(); p != nil {
			symptom = "panic: " + errClass(fmt.Errorf("%v", p))
		}
	}()
	eng := lk.NewEngine(s, "rec", hook)
	if rec != nil {
		rec.Engine = eng
		rec.Active = true
	}
	l, err := openOrCreate(ctx, eng, x.Kind == "init")
	if err != nil {
		return "reopen: " + errClass(err)
	}
	got, err := l.Contents(ctx)
	if err != nil {
		return "read: " + errClass(err)
	}
	if c := got.Canon(); c != before && c != after {
		return "atomicity: contents are neither the state before nor the state after the interrupted operation"
	}
	return c17FollowUp(ctx, l, x, got, before, after)
}

type c17Case struct {
	History c17History     `json:"history"`
	Mode    string         `json:"mode"`
	CrashAt int            `json:"crash_at"`
	Event   string         `json:"crash_before_event"`
	Second  int            `json:"second_crash_at,omitempty"`
	Symptom string         `json:"symptom"`
	Events  []string       `json:"events_of_x,omitempty"`
	Files   map[string]int `json:"files_after_crash,omitempty"`
}

func TestC17(t *testing.T) {
	ctx := context.Background()
	if f := os.Getenv("VERIF_REPLAY"); f != "" {
		c17Replay(t, ctx, f)
		return
	}
	run := rep.Start("C17", "fault_enumeration")
	defer run.Finish(t)
	deadline := rep.Deadline(4*time.Minute, 40*time.Minute)
	// Bind the in-memory engine to the real file engine first.
	confTraces, mismatch, err := vstoreConformance(3)
	if err != nil {
		t.Fatalf("conformance: %v", err)
	}
	if mismatch != "" {
		t.Fatalf("HARNESS-ERROR: vstore no longer conforms to storage.FileSystem: %s", mismatch)
	}
	run.Set("traces_validated_against_impl", confTraces)
	run.Set("file_engine_semantics_probed", fmt.Sprintf("%+v", vstore.DefaultFileSem))
	var histories, crashPoints, recoveries, dedup, doubleCrashes int64
	exhaustive := true
	for _, mode := range []vstore.Mode{vstore.Atomic, vstore.File} {
		for _, h := range c17Histories() {
			if !rep.Thorough() && !h.Quick {
				continue
			}
			if time.Now().After(deadline) {
				exhaustive = false
				continue
			}
			histories++
			base, err := buildSetup(ctx, mode, h.Setup, h.X.Kind != "init")
			if err != nil {
				t.Fatalf("%s: %v", h.Name, err)
			}
			before := "(no lake)"
			if h.X.Kind != "init" {
				c, err := coldContents(ctx, base)
				if err != nil {
					t.Fatalf("%s: before: %v", h.Name, err)
				}
				before = c.Canon()
			}
			// Reference run of X to completion.
			full := base.Clone()
			rec := &vstore.Recorder{CrashAt: -1}
			if err := applyX(ctx, full, rec, h.X, rec); err != nil {
				t.Fatalf("%s: X fails without crash: %v", h.Name, err)
			}
			c, err := coldContents(ctx, full)
			if err != nil {
				t.Fatalf("%s: after: %v", h.Name, err)
			}
			after := c.Canon()
			var evs []string
			for _, e := range rec.Events {
				evs = append(evs, e.Op+" "+pathClass(e.Path))
			}
			run.Sample(map[string]any{"history": h.Name, "mode": mode.String(), "x": h.X.String(), "events": len(evs), "first_events": evs[:min(len(evs), 8)]})
			memo := map[uint64]string{}
			for k := 0; k < len(rec.Events); k++ {
				crashPoints++
				img := base.Clone()
				r2 := &vstore.Recorder{CrashAt: k}
				bubble(t, func() { applyX(ctx, img, r2, h.X, r2) })
				hsh := img.Hash()
				symptom, seen := memo[hsh]
				if !seen {
					recoveries++
					bubble(t, func() { symptom = c17Recover(ctx, img.Clone(), h.X, before, after, nil, nil) })
					memo[hsh] = symptom
					run.Distinct(fmt.Sprintf("%s/%s/%x", h.Name, mode, hsh))
				} else {
					dedup++
				}
				ev := rec.Events[k]
				if symptom != "" {
					sig := fmt.Sprintf("mode=%s crash-before=%s %s symptom=%s", mode, ev.Op, pathClass(ev.Path), symClass(symptom))
					run.Violation(sig, c17Case{History: h, Mode: mode.String(), CrashAt: k, Event: ev.String(), Symptom: symptom, Events: evs})
					continue
				}
				// Double crash: crash again at every event of the recovery +
				// follow-up, then recover once more.
				if rep.Thorough() && !seen && h.Quick && !time.Now().After(deadline) {
					img2 := img.Clone()
					r3 := &vstore.Recorder{CrashAt: -1}
					bubble(t, func() { c17Recover(ctx, img2, h.X, before, after, r3, r3) })
					n2 := len(r3.Events)
					memo2 := map[uint64]bool{}
					for k2 := 0; k2 < n2; k2++ {
						img3 := img.Clone()
						r4 := &vstore.Recorder{CrashAt: k2}
						bubble(t, func() { c17Recover(ctx, img3, h.X, before, after, r4, r4) })
						h3 := img3.Hash()
						if memo2[h3] {
							continue
						}
						memo2[h3] = true
						doubleCrashes++
						var s string
						bubble(t, func() { s = c17SecondRecover(ctx, img3) })
						if s != "" {
							e2 := r3.Events[k2]
							sig := fmt.Sprintf("mode=%s double-crash first-before=%s %s second-before=%s %s symptom=%s", mode, ev.Op, pathClass(ev.Path), e2.Op, pathClass(e2.Path), symClass(s))
							run.Violation(sig, c17Case{History: h, Mode: mode.String(), CrashAt: k, Event: ev.String(), Second: k2, Symptom: s})
						}
					}
				}
			}
		}
	}
	run.Set("histories", histories)
	run.Set("crash_points", crashPoints)
	run.Set("recoveries_run", recoveries)
	run.Set("crash_points_with_identical_image_memoised", dedup)
	run.Set("double_crash_recoveries", doubleCrashes)
	run.Set("evaluations", crashPoints+doubleCrashes)
	run.Set("exhaustive", exhaustive)
	run.Set("rule", "for each history (setup ops + last operation X) and each storage mode (atomic puts / file create-then-fill), X is run on a clone of the image with the process declared dead before storage event k, for every k of X's event log (every Get/Put-open/Write/Close/PutIfNotExists/Delete/DeleteByPrefix/List/Exists/Read); then the image is reopened cold, every pool and branch read, compared with the contents before and after an uninterrupted X, and a fixed follow-up workload is run. distinct = distinct crashed storage images (by content hash); identical images share one recovery")
	run.Assume("process death only: writes that completed survive; power loss (dropping unsynced completed writes) is outside the property's 'process dies'")
	run.Assume("file mode is an in-memory model of storage.FileSystem (create/truncate at open, append per Write call, exclusive-create + one write for PutIfNotExists), bound to the real engine by TestVstoreConformance")
	run.Assume("a single Write call is not torn; torn prefixes are at Write-call granularity, as the property states")
}

func c17SecondRecover(ctx context.Context, s *vstore.Store) (symptom string) {
	defer func() {
		if p := recover(); p != nil {
			symptom = "panic: " + errClass(fmt.Errorf("%v", p))
		}
	}()
	l, err := openOrCreate(ctx, lk.NewEngine(s, "rec2", nil), true)
	if err != nil {
		return "reopen: " + errClass(err)
	}
	c, err := l.Contents(ctx)
	if err != nil {
		return "read: " + errClass(err)
	}
	for pool, brs := range c {
		if _, ok := brs["main"]; ok && !strings.HasPrefix(pool, "zz") {
			if _, err := l.Apply(ctx, ld(pool, "main", `{k:2000}`)); err != nil {
				return "followup-load: " + errClass(err)
			}
		}
	}
	if _, err := l.Apply(ctx, lk.Op{Kind: "createpool", Pool: "zz2", Key: "k:asc"}); err != nil {
		return "followup-createpool: " + errClass(err)
	}
	return ""
}

func c17Replay(t *testing.T, ctx context.Context, file string) {
	b, err := os.ReadFile(file)
	if err != nil {
		t.Fatal(err)
	}
	var doc struct {
		Detail c17Case `json:"detail"`
	}
	if err := json.Unmarshal(b, &doc); err != nil {
		t.Fatal(err)
	}
	c := doc.Detail
	mode := vstore.Atomic
	if c.Mode == "file" {
		mode = vstore.File
	}
	h := c.History
	base, err := buildSetup(ctx, mode, h.Setup, h.X.Kind != "init")
	if err != nil {
		t.Fatal(err)
	}
	before := "(no lake)"
	if h.X.Kind != "init" {
		cc, err := coldContents(ctx, base)
		if err != nil {
			t.Fatal(err)
		}
		before = cc.Canon()
	}
	full := base.Clone()
	if err := applyX(ctx, full, nil, h.X, nil); err != nil {
		t.Fatal(err)
	}
	cc, err := coldContents(ctx, full)
	if err != nil {
		t.Fatal(err)
	}
	after := cc.Canon()
	img := base.Clone()
	r2 := &vstore.Recorder{CrashAt: c.CrashAt}
	xerr := applyX(ctx, img, r2, h.X, r2)
	fmt.Printf("replay: history=%s mode=%s crash before event %d (%s); X returned: %v\n", h.Name, c.Mode, c.CrashAt, c.Event, xerr)
	for _, p := range img.Paths() {
		bb, _ := img.Read(p)
		fmt.Printf("  file %-90s %d bytes\n", pathClass(p), len(bb))
	}
	var symptom string
	bubble(t, func() { symptom = c17Recover(ctx, img, h.X, before, after, nil, nil) })
	fmt.Printf("replay: before=%s\nreplay: after=%s\nreplay: symptom=%q\n", before, after, symptom)
	if symptom != "" {
		fmt.Printf("VIOLATION property=C17 replay=%s\n", file)
		t.Fail()
	}
}
