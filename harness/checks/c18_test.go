package checks

import (
	"bytes"
	"context"
	"errors"
	"fmt"
	"io"
	"regexp"
	"strings"
	"testing"

	zed "github.com/brimdata/super"
	"github.com/brimdata/super/pkg/bufwriter"
	"github.com/brimdata/super/pkg/storage"
	"github.com/brimdata/super/zio"
	"github.com/brimdata/super/zio/anyio"
	"github.com/brimdata/super/zio/emitter"
	"github.com/brimdata/super/zio/zngio"
	"github.com/brimdata/super/zio/zsonio"
	"github.com/brimdata/super/zson"

	"verif/lk"
	"verif/rep"
	"verif/vstore"
)

// ---- C18: a failed write to the output is always reported ---------------------

var errSink = errors.New("injected sink failure")

var csvFloatRe = regexp.MustCompile(`(:[0-9]+)\.([,}])`)

// faultSink fails at the k-th call (1-based, counting Write and Close calls).
type faultSink struct {
	buf    bytes.Buffer
	calls  int
	failAt int
	mode   string // "oneshot", "sticky", "short"
	failed bool   // some call returned an error
	closed bool
}

func (s *faultSink) hit() bool {
	s.calls++
	if s.failAt == 0 {
		return false
	}
	if s.calls == s.failAt || (s.mode == "sticky" && s.calls > s.failAt) {
		s.failed = true
		return true
	}
	return false
}

func (s *faultSink) Write(p []byte) (int, error) {
	if s.hit() {
		if s.mode == "short" && len(p) > 1 {
			n := len(p) / 2
			s.buf.Write(p[:n])
			return n, io.ErrShortWrite
		}
		return 0, errSink
	}
	s.buf.Write(p)
	return len(p), nil
}

func (s *faultSink) Close() error {
	s.closed = true
	if s.hit() {
		return errSink
	}
	return nil
}

type c18Writer struct {
	Name   string
	Format string
	Opts   anyio.WriterOpts
	Via    string // "anyio", "bufwriter", "emitter"
	Inputs []string
	Reread bool
}

func c18Writers() []c18Writer {
	all := []string{"one", "many", "mixed", "nulls", "repeats", "nested"}
	flat := []string{"one", "many", "nulls", "repeats"}
	var ws []c18Writer
	add := func(name, format string, opts anyio.WriterOpts, inputs []string, reread bool) {
		opts.Format = format
		for _, via := range []string{"anyio", "bufwriter", "emitter"} {
			ws = append(ws, c18Writer{Name: name + "/" + via, Format: format, Opts: opts, Via: via, Inputs: inputs, Reread: reread})
		}
	}
	add("zng", "zng", anyio.WriterOpts{}, all, true)
	add("zng-nocompress", "zng", anyio.WriterOpts{ZNG: &zngio.WriterOpts{Compress: false, FrameThresh: zngio.DefaultFrameThresh}}, all, true)
	add("zng-frame1", "zng", anyio.WriterOpts{ZNG: &zngio.WriterOpts{Compress: true, FrameThresh: 1}}, all, true)
	add("zng-frame1-nocompress", "zng", anyio.WriterOpts{ZNG: &zngio.WriterOpts{Compress: false, FrameThresh: 1}}, all, true)
	add("zson", "zson", anyio.WriterOpts{}, all, true)
	add("zson-pretty", "zson", anyio.WriterOpts{ZSON: zsonio.WriterOpts{Pretty: 4}}, all, true)
	add("zjson", "zjson", anyio.WriterOpts{}, all, true)
	add("json", "json", anyio.WriterOpts{}, all, true)
	add("csv", "csv", anyio.WriterOpts{}, flat, true)
	add("tsv", "tsv", anyio.WriterOpts{}, flat, true)
	add("zeek", "zeek", anyio.WriterOpts{}, all, true)
	add("table", "table", anyio.WriterOpts{}, all, false)
	add("text", "text", anyio.WriterOpts{}, all, false)
	add("vng", "vng", anyio.WriterOpts{}, all, true)
	add("lake", "lake", anyio.WriterOpts{}, all, false)
	return ws
}

func c18Inputs() map[string]string {
	var many strings.Builder
	for i := 0; i < 20; i++ {
		fmt.Fprintf(&many, "{a:%d,s:\"row%d\"}\n", i, i)
	}
	return map[string]string{
		"one":   `{a:1,s:"x"}`,
		"many":  many.String(),
		"mixed": `{a:1,s:"x"} {b:"only"} {a:2,s:"y"} {a:3,b:"both",c:4} {a:4,s:"z"}`,
		// columns with nulls among several distinct values, repeated values (dictionary and
		// run-length encodings in the columnar writer), and nested/union/map/set columns
		"nulls":   `{a:1,s:"x"} {a:null(int64),s:"y"} {a:2,s:null(string)} {a:3,s:"z"}`,
		"repeats": `{a:1,s:"x"} {a:1,s:"x"} {a:2,s:"y"} {a:1,s:"x"} {a:1,s:"y"}`,
		"nested":  `{r:{x:1,y:[1,2]},m:|{"k":1}|,u:1((int64,string)),t:|[1,2]|} {r:{x:2,y:[]([int64])},m:|{"j":2}|,u:"s"((int64,string)),t:|[3]|} {r:null({x:int64,y:[int64]}),m:|{"k":3}|,u:2((int64,string)),t:|[1]|}`,
	}
}

func parseVals(t *testing.T, zctx *zed.Context, text string) []zed.Value {
	r := zsonio.NewReader(zctx, strings.NewReader(text))
	var vals []zed.Value
	for {
		v, err := r.Read()
		if err != nil {
			t.Fatalf("parse input: %v", err)
		}
		if v == nil {
			return vals
		}
		vals = append(vals, v.Copy())
	}
}

// putEngine hands out a fixed sink from Put (for the emitter path).
type putEngine struct {
	storage.Engine
	sink io.WriteCloser
}

func (p *putEngine) Put(context.Context, *storage.URI) (io.WriteCloser, error) { return p.sink, nil }

func c18Open(w c18Writer, sink io.WriteCloser) (zio.WriteCloser, error) {
	switch w.Via {
	case "anyio":
		return anyio.NewWriter(sink, w.Opts)
	case "bufwriter":
		return anyio.NewWriter(bufwriter.New(sink), w.Opts)
	default:
		return emitter.NewFileFromURI(context.Background(), &putEngine{sink: sink}, storage.MustParseURI("file:///out"), false, w.Opts)
	}
}

// c18Run writes vals through w into sink; reported = some Write/Close returned an error.
func c18Run(w c18Writer, sink *faultSink, vals []zed.Value) (reported bool, panicked string) {
	defer func() {
		if p := recover(); p != nil {
			panicked = fmt.Sprint(p)
		}
	}()
	zw, err := c18Open(w, sink)
	if err != nil {
		return true, ""
	}
	for _, v := range vals {
		if err := zw.Write(v); err != nil {
			reported = true
			break
		}
	}
	if err := zw.Close(); err != nil {
		reported = true
	}
	return reported, ""
}

func TestC18(t *testing.T) {
	run := rep.Start("C18", "fault_enumeration")
	defer run.Finish(t)
	inputs := c18Inputs()
	zctx := zed.NewContext()
	var cases, rereads int64
	for _, w := range c18Writers() {
		for _, in := range w.Inputs {
			vals := parseVals(t, zctx, inputs[in])
			var want []string
			for _, v := range vals {
				want = append(want, zson.FormatValue(v))
			}
			// fault-free reference run
			ref := &faultSink{}
			reported, pan := c18Run(w, ref, vals)
			cases++
			if reported && pan == "" && (in == "nulls" || in == "repeats" || in == "nested") {
				// the format cannot represent this input (e.g. Zeek and nested values): nothing to inject into
				run.Add("inputs_a_format_cannot_represent", 1)
				continue
			}
			if reported || pan != "" {
				t.Fatalf("%s/%s: fault-free run fails: reported=%v panic=%s", w.Name, in, reported, pan)
			}
			if !ref.closed && w.Via != "emitter" {
				run.Violation(fmt.Sprintf("writer=%s symptom=sink-not-closed", w.Name), map[string]any{"writer": w.Name, "input": in})
			}
			m := ref.calls
			run.Sample(map[string]any{"writer": w.Name, "input": in, "sink_calls": m, "bytes": ref.buf.Len()})
			lossless := w.Format == "zng" || w.Format == "zson" || w.Format == "zjson" || w.Format == "vng"
			if w.Reread && (lossless || in == "one" || in == "many" || in == "mixed") {
				rereads++
				zr, err := anyio.NewReaderWithOpts(zed.NewContext(), bytes.NewReader(ref.buf.Bytes()), nil, anyio.ReaderOpts{Format: w.Format})
				var got []string
				if err == nil {
					for {
						v, rerr := zr.Read()
						if rerr != nil {
							err = rerr
							break
						}
						if v == nil {
							break
						}
						got = append(got, zson.FormatValue(*v))
					}
					zr.Close()
				}
				gotS, wantS := strings.Join(got, "\n"), strings.Join(want, "\n")
				if w.Format == "csv" || w.Format == "tsv" {
					// The CSV reader types every number as float64; the
					// comparison ignores the int/float distinction there.
					gotS = csvFloatRe.ReplaceAllString(gotS, "$1$2")
				}
				if err != nil || gotS != wantS {
					run.Violation(fmt.Sprintf("writer=%s input=%s symptom=fault-free-stream-not-readable-back", w.Name, in),
						map[string]any{"writer": w.Name, "input": in, "err": fmt.Sprint(err), "got": got, "want": want})
				}
			} else {
				// determinism of the fault-free bytes
				ref2 := &faultSink{}
				c18Run(w, ref2, vals)
				if !bytes.Equal(ref.buf.Bytes(), ref2.buf.Bytes()) {
					run.Violation(fmt.Sprintf("writer=%s input=%s symptom=fault-free-bytes-not-deterministic", w.Name, in), nil)
				}
			}
			for k := 1; k <= m; k++ {
				for _, mode := range []string{"oneshot", "sticky", "short"} {
					sink := &faultSink{failAt: k, mode: mode}
					reported, pan := c18Run(w, sink, vals)
					cases++
					run.Eval(fmt.Sprintf("%s/%s/%d/%s", w.Name, in, k, mode))
					if pan != "" {
						run.Violation(fmt.Sprintf("writer=%s mode=%s symptom=panic", w.Name, mode),
							map[string]any{"writer": w.Name, "input": in, "fail_at_call": k, "of": m, "mode": mode, "panic": pan})
						continue
					}
					if sink.failed && !reported {
						kind := "write"
						if k == m {
							kind = "last-call"
						}
						run.Violation(fmt.Sprintf("writer=%s mode=%s failing-call=%s symptom=sink-error-not-reported", w.Name, mode, kind),
							map[string]any{"writer": w.Name, "via": w.Via, "format": w.Format, "input": in, "fail_at_call": k, "of": m, "mode": mode})
					}
				}
			}
		}
	}
	lakeCases := c18Lake(t, run)
	run.Set("evaluations", cases+lakeCases)
	run.Set("format_writer_cases", cases)
	run.Set("lake_load_fault_cases", lakeCases)
	run.Set("rereads", rereads)
	run.Set("exhaustive", true)
	run.Assume("inputs are six fixed value sequences per writer (four for CSV/TSV); a short write is n<len(p) with io.ErrShortWrite")
	run.Assume("the lake part injects an error (not a crash) at each write-side storage event of Branch.Load and claims only: acknowledged => complete and readable")
	run.Set("rule", "for each output writer (15 format/option combinations x {anyio direct, behind bufwriter, emitter.NewFileFromURI}) and each input (1 value, 20 values, mixed shapes, columns with nulls among distinct values, repeated values, nested/union/map/set columns), the fault-free run counts m sink calls (Write+Close); then for every k in 1..m and every mode (one-shot error, sticky error, short write with io.ErrShortWrite) call k fails; oracle: a sink error implies some Write/Close of the format writer returned an error; fault-free bytes re-read with the matching reader equal the input. Lake part: Branch.Load over an engine whose k-th storage write-side event fails, for every k: either Load returns an error or the branch contains exactly the loaded values")
}

// failHook makes storage event number FailAt (counting only write-side events)
// return an error (one-shot or sticky) without taking effect.
type failHook struct {
	n, failAt int
	sticky    bool
	active    bool
	failed    bool
	events    []string
}

func (h *failHook) Before(e vstore.Event) error {
	if !h.active {
		return nil
	}
	switch e.Op {
	case "put", "create", "write", "close", "putx", "createx":
	default:
		return nil
	}
	h.n++
	h.events = append(h.events, e.Op+" "+pathClass(e.Path))
	if h.failAt > 0 && (h.n == h.failAt || (h.sticky && h.n > h.failAt)) {
		h.failed = true
		return errSink
	}
	return nil
}

func c18Lake(t *testing.T, run *rep.Run) int64 {
	ctx := context.Background()
	var cases int64
	type sc struct {
		name string
		pool lk.Op
		load lk.Op
	}
	scs := []sc{
		{"load-1-object", lk.Op{Kind: "createpool", Pool: "p", Key: "k:asc"}, ld("p", "main", `{k:1,v:"a"} {k:2,v:"b"} {k:3,v:"c"}`)},
		{"load-3-objects", lk.Op{Kind: "createpool", Pool: "p", Key: "k:asc", Thresh: 1, Stride: 1}, ld("p", "main", `{k:1} {k:2} {k:3}`)},
	}
	for _, mode := range []vstore.Mode{vstore.Atomic, vstore.File} {
		for _, s := range scs {
			base, err := buildSetup(ctx, mode, []lk.Op{s.pool}, true)
			if err != nil {
				t.Fatal(err)
			}
			// reference
			ref := base.Clone()
			h0 := &failHook{}
			l, err := lk.Open(ctx, lk.NewEngine(ref, "w", h0))
			if err != nil {
				t.Fatal(err)
			}
			h0.active = true
			if _, err := l.Apply(ctx, s.load); err != nil {
				t.Fatalf("reference load: %v", err)
			}
			c, err := coldContents(ctx, ref)
			if err != nil {
				t.Fatal(err)
			}
			after := c.Canon()
			c, _ = coldContents(ctx, base)
			before := c.Canon()
			m := h0.n
			run.Sample(map[string]any{"lake": s.name, "mode": mode.String(), "write_side_events": m, "events": h0.events})
			for k := 1; k <= m; k++ {
				for _, sticky := range []bool{false, true} {
					img := base.Clone()
					h := &failHook{failAt: k, sticky: sticky}
					var lerr error
					var got string
					var readErr error
					bubble(t, func() {
						l, err := lk.Open(ctx, lk.NewEngine(img, "w", h))
						if err != nil {
							lerr = err
							return
						}
						h.active = true
						_, lerr = l.Apply(ctx, s.load)
						h.active = false
						c, err := coldContents(ctx, img)
						if err != nil {
							readErr = err
							return
						}
						got = c.Canon()
					})
					cases++
					run.Eval(fmt.Sprintf("lake/%s/%s/%d/%v", s.name, mode, k, sticky))
					ev := h0.events[k-1]
					st := "oneshot"
					if sticky {
						st = "sticky"
					}
					detail := map[string]any{"scenario": s.name, "mode": mode.String(), "fail_event_index": k, "event": ev, "sticky": sticky, "load_error": fmt.Sprint(lerr)}
					// C18 claims only: an acknowledged load is complete and readable.
					// (What a *failed* load may leave behind belongs to C12/C17.)
					if lerr == nil {
						switch {
						case readErr != nil:
							run.Violation(fmt.Sprintf("lake-load mode=%s %s failing-event=%s symptom=load-acknowledged-but-branch-unreadable: %s", mode, st, ev, errClass(readErr)), detail)
						case got != after:
							run.Violation(fmt.Sprintf("lake-load mode=%s %s failing-event=%s symptom=load-acknowledged-but-data-incomplete", mode, st, ev), detail)
						}
					}
					_ = before
				}
			}
		}
	}
	return cases
}
