package checks

import (
	"bytes"
	"context"
	"fmt"
	"hash/fnv"
	"strings"
	"sync"
	"testing"

	zed "github.com/brimdata/super"
	"github.com/brimdata/super/compiler"
	"github.com/brimdata/super/runtime"
	"github.com/brimdata/super/runtime/vcache"
	"github.com/brimdata/super/vng"
	"github.com/brimdata/super/zio/zsonio"

	"verif/lk"
	"verif/rep"
	"verif/vstore"
)

// ---- C09: the vector runtime agrees with the sequential runtime -------------------

// column content patterns for the field f (n records each)
var c09Patterns = []struct {
	name string
	gen  func(i int) string // the record, "" f-part means f missing
}{
	{"string-const", func(i int) string { return `f:"a"` }},
	{"string-3-distinct", func(i int) string { return fmt.Sprintf(`f:"s%d"`, i%3) }},
	{"string-300-distinct", func(i int) string { return fmt.Sprintf(`f:"s%d"`, i%300) }},
	{"int64", func(i int) string { return fmt.Sprintf(`f:%d`, i%5) }},
	{"uint8", func(i int) string { return fmt.Sprintf(`f:%d(uint8)`, i%5) }},
	{"float64", func(i int) string { return fmt.Sprintf(`f:%d.5`, i%4) }},
	{"string-with-null-run", func(i int) string {
		if i%7 < 3 {
			return `f:null(string)`
		}
		return fmt.Sprintf(`f:"s%d"`, i%3)
	}},
	{"int-with-nulls", func(i int) string {
		if i%2 == 1 {
			return `f:null(int64)`
		}
		return fmt.Sprintf(`f:%d`, i%3)
	}},
	{"missing-in-some", func(i int) string {
		if i%3 == 0 {
			return ``
		}
		return fmt.Sprintf(`f:"s%d"`, i%2)
	}},
	{"two-types", func(i int) string {
		if i%2 == 0 {
			return fmt.Sprintf(`f:%d`, i%3)
		}
		return fmt.Sprintf(`f:"s%d"`, i%3)
	}},
	{"all-null", func(i int) string { return `f:null(string)` }},
}

func c09Batch(pat int, n, base int) string {
	var b strings.Builder
	for i := 0; i < n; i++ {
		f := c09Patterns[pat].gen(i)
		if f != "" {
			f += ","
		}
		fmt.Fprintf(&b, "{%sg:%d}\n", f, base+i)
	}
	return b.String()
}

type c09Job struct {
	name   string
	kind   string // "lake" or "program"
	pats   []int
	n      int
	query  string
	input  string // program jobs: ZSON input
	seqCmp bool
}

var c09Once sync.Once
var c09JobList []c09Job

func c09Jobs() []c09Job {
	c09Once.Do(func() {
		var jobs []c09Job
		queries := []string{"count() by f", "sum(f)"}
		np := len(c09Patterns)
		for _, q := range queries {
			for a := 0; a < np; a++ {
				n := 20
				if strings.Contains(c09Patterns[a].name, "300") {
					n = 320
				}
				jobs = append(jobs, c09Job{name: fmt.Sprintf("lake %q objects=[%s]", q, c09Patterns[a].name), kind: "lake", pats: []int{a}, n: n, query: q})
				for b := 0; b < np; b++ {
					if !rep.Thorough() && (a+b)%3 != 0 && a != b {
						continue
					}
					jobs = append(jobs, c09Job{name: fmt.Sprintf("lake %q objects=[%s,%s]", q, c09Patterns[a].name, c09Patterns[b].name), kind: "lake", pats: []int{a, b}, n: 20, query: q})
				}
			}
			jobs = append(jobs, c09Job{name: fmt.Sprintf("lake %q objects=[string-3-distinct x3]", q), kind: "lake", pats: []int{1, 1, 1}, n: 20, query: q},
				c09Job{name: fmt.Sprintf("lake %q objects=[int64,string-const,float64]", q), kind: "lake", pats: []int{3, 0, 5}, n: 20, query: q})
		}
		// whole programs the vector compiler may accept, over single VNG objects
		inputs := map[string]string{
			"records":       `{a:1,b:"x",c:1.5,l:[1,2]} {a:2,b:"y",c:2.5,l:[3]} {a:3,b:"x",c:null(float64),l:[]([int64])} {a:null(int64),b:"z",c:0.5,l:[4,5,6]}`,
			"nested":        `{a:1,r:{x:1,y:"p"}} {a:2,r:{x:2,y:"q"}} {a:3,r:{x:3,y:"p"}}`,
			"heterogeneous": `{a:1,b:"x"} {a:"s",b:2} {b:"only"} {a:2,b:"y"} 7`,
			"with-nulls":    `{a:1,b:null(string)} {a:null(int64),b:"x"} {a:3,b:"y"}`,
		}
		progs := []string{
			"pass", "yield a", "yield a+1", "yield a*2-1", "yield a/2", "yield a%2", "yield -a", "yield a==1", "yield a!=1", "yield a<2", "yield a<=2", "yield a>2", "yield a>=2",
			"yield a==1 or a==3", "yield a>1 and a<3", "yield not (a==1)", "yield b", `yield b=="x"`, "yield {a,b}", "yield {x:a,y:b}", "yield [a,b]", "yield c+1", "yield a+c",
			"yield r.x", "yield r.y", "yield l[0]", "yield l[1]", "yield len(l)", "yield len(b)", "yield upper(b)", "yield lower(b)", "yield typeof(a)", "yield typeof(this)", "yield has(a)", "yield missing(a)", "yield coalesce(a,0)",
			"where a==1", "where a>1", `where b=="x"`, "where a>1 and a<3", "where a==1 or a==3", "where not (a==1)", "where c>1", "where r.x>1", "where a==null", "where has(a)",
			"cut a", "cut a,b", "cut b,a", "cut r.x", "drop a", "drop b", "drop r.y", "put d:=a+1", "put a:=a+1", "put d:=1", `put d:="k"`, "rename x:=a", "rename y:=b",
			"head 1", "head 2", "tail 1", "tail 2", "sort a", "sort -r a", "sort b", "sort a,b", "over l", "over l | yield this+1",
			"where a>1 | yield a+1", "cut a | where a>1", "put d:=a+1 | where d>2", "yield a | head 1", "sort a | head 2", "where a>1 | cut b", "rename x:=a | yield x",
			"count()", "sum(a)", "count() by b", "sum(a) by b",
		}
		for _, in := range []string{"heterogeneous", "nested", "records", "with-nulls"} {
			text := inputs[in]
			for _, p := range progs {
				jobs = append(jobs, c09Job{name: fmt.Sprintf("program %q input=%s", p, in), kind: "program", query: p, input: text, seqCmp: in != "heterogeneous" && !strings.Contains(p, "count(") && !strings.Contains(p, "sum(")})
			}
		}
		c09JobList = jobs
	})
	return c09JobList
}

// c09Class names the case by the input features the vector runtime's known
// limitations depend on (not by the individual pattern combination).
func c09Class(j c09Job) string {
	if j.kind == "lake" {
		feat := map[string]bool{}
		for _, p := range j.pats {
			n := c09Patterns[p].name
			switch {
			case strings.HasPrefix(n, "string"):
				feat["string"] = true
			case n == "int64" || n == "int-with-nulls":
				feat["int64"] = true
			case n == "uint8":
				feat["uint"] = true
			case n == "float64":
				feat["float"] = true
			case n == "two-types":
				feat["int64"], feat["string"] = true, true
			}
			if strings.Contains(n, "null") {
				feat["nulls"] = true
			}
			if strings.Contains(n, "missing") {
				feat["missing"], feat["string"] = true, true
			}
		}
		if len(j.pats) > 1 {
			feat["several-objects"] = true
		}
		var fs []string
		for _, k := range []string{"string", "int64", "uint", "float", "nulls", "missing", "several-objects"} {
			if feat[k] {
				fs = append(fs, k)
			}
		}
		return fmt.Sprintf("lake query=%q column=%s", j.query, strings.Join(fs, "+"))
	}
	in := j.name[strings.LastIndex(j.name, "input=")+6:]
	return fmt.Sprintf("program op=%s input=%s", c07Shape(j.query), in)
}

// c09Sig identifies a finding by the individual case (query and input) and by
// what the vector runtime answered (a digest of its output or error), so that
// a case that fails differently, or a case that used to agree, is a new
// violation even where the vector runtime has recorded limitations.
func c09Sig(j c09Job, symptom string, answer ...string) string {
	if j.kind == "lake" && len(j.pats) > 1 {
		// Several objects are scanned concurrently: what exactly the vector runtime
		// answers when it goes wrong depends on the schedule, the case does not.
		return fmt.Sprintf("vector %s symptom=%s", j.name, symptom)
	}
	h := fnv.New32a()
	for _, a := range answer {
		h.Write([]byte(a))
		h.Write([]byte{0})
	}
	return fmt.Sprintf("vector %s symptom=%s answer=%08x", j.name, symptom, h.Sum32())
}

// errHead is the first line of an error's class (the runtime's Catcher appends
// a stack trace with goroutine numbers and addresses to recovered panics).
func errHead(err error) string {
	if err == nil {
		return "nil"
	}
	s := err.Error()
	if i := strings.IndexByte(s, '\n'); i >= 0 {
		s = s[:i]
	}
	return errClass(fmt.Errorf("%s", s))
}

func init() {
	isoFamilies["c09"] = &isoFamily{
		N:        func() int { return len(c09Jobs()) },
		Name:     func(i int) string { return c09Jobs()[i].name },
		Class:    func(i int) string { return c09Class(c09Jobs()[i]) },
		Run:      func(i int, c *isoCtx) { c09Run(c09Jobs()[i], c) },
		CrashSig: func(i int, site string) string { return c09Sig(c09Jobs()[i], "process-crash: "+site) },
	}
}

func c09Run(j c09Job, c *isoCtx) {
	ctx := context.Background()
	c.Eval(j.name)
	cls := c09Class(j)
	if j.kind == "lake" {
		ops := []lk.Op{{Kind: "createpool", Pool: "p", Key: "g:asc"}}
		for k, p := range j.pats {
			ops = append(ops, ld("p", "main", c09Batch(p, j.n, 1000*k)))
		}
		st, err := buildSetup(ctx, vstore.Atomic, ops, true)
		if err != nil {
			c.Violation("harness symptom=setup-failed "+cls, map[string]any{"error": err.Error()})
			return
		}
		src := "from p | " + j.query
		plain, _ := lk.Open(ctx, lk.NewEngine(st, "q", nil))
		ref, rerr := lakeQueryVals(ctx, plain, src, true, 2)
		seq1, _ := lakeQueryVals(ctx, plain, src, true, 1)
		if rerr == nil && !sameMultiset(formatAll(ref), formatAll(seq1)) {
			c.Violation("lake symptom=sequential-runtime-differs-between-parallelism-1-and-2 "+cls, map[string]any{"case": j.name})
		}
		vecImg := st.Clone()
		lv, _ := lk.Open(ctx, lk.NewEngine(vecImg, "v", nil))
		objs, err := lv.Objects(ctx, "p", "main")
		if err != nil {
			c.Violation("harness symptom=objects "+cls, map[string]any{"error": err.Error()})
			return
		}
		for i := range objs {
			if _, err := lv.Apply(ctx, lk.Op{Kind: "addvec", Pool: "p", Branch: "main", IDs: []string{objs[i].ID.String()}}); err != nil {
				c.Violation("lake symptom=vector-add-failed "+cls+": "+errClass(err), map[string]any{"case": j.name})
				return
			}
		}
		lq, _ := lk.Open(ctx, lk.NewEngine(vecImg, "vq", nil))
		got, gerr := lakeQueryVals(ctx, lq, src, true, 2)
		switch {
		case rerr != nil && gerr != nil:
		case (rerr == nil) != (gerr == nil):
			c.Violation(c09Sig(j, "only-one-runtime-fails", fmt.Sprint(rerr != nil), fmt.Sprint(gerr != nil)), map[string]any{"case": j.name, "without_vectors_error": fmt.Sprint(rerr), "with_vectors_error": fmt.Sprint(gerr)})
		case !sameMultiset(formatAll(ref), formatAll(got)):
			c.Violation(c09Sig(j, "result-changes-when-vectors-are-added", sortedCopy(formatAll(got))...), map[string]any{"case": j.name, "without_vectors": formatAll(ref), "with_vectors": formatAll(got)})
		}
		return
	}
	// whole program: sequential runtime vs vector runtime over one VNG object
	want, werr := runQueryOnTextVals(ctx, j.input, j.query)
	zctx := zed.NewContext()
	vals, err := readAll(zsonio.NewReader(zctx, strings.NewReader(j.input)))
	if err != nil {
		return
	}
	b, err := vngWrite(vals)
	if err != nil {
		return
	}
	o, err := vng.NewObject(bytes.NewReader(b))
	if err != nil {
		return
	}
	var got []zed.Value
	var gerr error
	compiled := true
	func() {
		defer func() {
			if p := recover(); p != nil {
				gerr = fmt.Errorf("PANIC: %v", p)
			}
		}()
		rctx := runtime.NewContext(ctx, zed.NewContext())
		defer rctx.Cancel()
		p, err := compiler.VectorCompile(rctx, j.query, vcache.NewObjectFromVNG(o))
		if err != nil {
			compiled = false
			return
		}
		got, gerr = pullAll(p)
	}()
	if !compiled {
		c.Count("programs_rejected_by_the_vector_compiler", 1)
		return // rejected at compile time: outside the claim
	}
	c.Count("programs_run_on_the_vector_runtime", 1)
	switch {
	case gerr != nil && strings.HasPrefix(gerr.Error(), "PANIC"):
		c.Violation(c09Sig(j, "vector-runtime-panics", errHead(gerr)), map[string]any{"case": j.name, "input": j.input, "panic": gerr.Error()})
	case (werr == nil) != (gerr == nil):
		c.Violation(c09Sig(j, "only-one-runtime-fails", errHead(werr), errHead(gerr)), map[string]any{"case": j.name, "sequential_error": fmt.Sprint(werr), "vector_error": fmt.Sprint(gerr)})
	case werr != nil:
	default:
		same := sameMultiset(formatAll(want), formatAll(got))
		if same && j.seqCmp {
			same = strings.Join(formatAll(want), "\n") == strings.Join(formatAll(got), "\n")
		}
		if !same {
			answer := formatAll(got)
			if !j.seqCmp {
				answer = sortedCopy(answer) // the order of an aggregate's rows is not defined (map iteration)
			}
			c.Violation(c09Sig(j, "vector-runtime-differs-from-sequential", answer...), map[string]any{"case": j.name, "input": j.input, "sequential": formatAll(want), "vector": formatAll(got)})
		}
	}
}

func TestC09(t *testing.T) {
	run := rep.Start("C09", "exploration")
	defer run.Finish(t)
	jobs := c09Jobs()
	n, crashes := runIsolated(t, run, "c09")
	run.Set("cases", n)
	run.Set("process_crashes", crashes)
	run.Sample(map[string]any{"example_lake_case": jobs[3].name, "example_program_case": jobs[len(jobs)-40].name, "patterns": len(c09Patterns)})
	run.Set("exhaustive", true)
	run.Set("rule", "lake: the auto-vectorised shapes count() by f and sum(f) over pools whose objects' f column follows one of 11 content patterns (constant / 3 / 300 distinct strings, int64, uint8, float64, null runs, missing in some records, two types in one column, all null), for every single pattern and pairs (quick: a third of the pairs) plus two three-object pools; each query runs at parallelism 2 on the pool without vectors and on a copy where every object got a vector copy (Branch.AddVectors); results must be equal multisets and neither may fail alone. programs: 80 programs of the operator/expression subset (yield/where/cut/drop/put/rename/head/tail/sort/over with arithmetic, comparison, logic, field access, indexing, functions, simple aggregates) x 4 inputs as single VNG objects through compiler.VectorCompile vs the sequential runtime; programs the vector compiler rejects are outside the claim. Each case runs in a child process so that a panic in a vector-runtime goroutine is attributed to it")
}
