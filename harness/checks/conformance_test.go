package checks

import (
	"context"
	"errors"
	"fmt"
	"io"
	"io/fs"
	"os"
	"path/filepath"
	"sort"
	"strings"

	"github.com/brimdata/super/pkg/storage"

	"verif/rep"
	"verif/vstore"
)

// Conformance of the in-memory engine to the real storage.FileSystem: every
// operation sequence of length <= n over a small alphabet on two colliding
// paths is run on both; results, error classes and final contents must agree.
// Returns the number of traces compared and a description of the first
// mismatch ("" if none).

type confOp struct {
	kind string
	path string
	data string
}

func (o confOp) String() string { return o.kind + " " + o.path + " " + o.data }

func confAlphabet() []confOp {
	return []confOp{
		{"put", "d/a", "x"}, {"put", "d/a", ""}, {"put", "d/b", "yy"},
		{"putx", "d/a", "z"}, {"putx", "d/b", "w"},
		{"get", "d/a", ""}, {"get", "d/b", ""},
		{"delete", "d/a", ""}, {"exists", "d/a", ""}, {"exists", "d", ""},
		{"size", "d/a", ""}, {"list", "d", ""}, {"deleteprefix", "d", ""},
		{"put2", "d/a", "pq"}, // two write calls
		// two handles open on the same path at once (h1/h2), writes interleaved
		{"open1", "d/a", ""}, {"open2", "d/a", ""}, {"w1", "", "10"}, {"w2", "", "9"}, {"close1", "", ""}, {"close2", "", ""},
	}
}

func errCls(err error) string {
	switch {
	case err == nil:
		return "ok"
	case errors.Is(err, fs.ErrNotExist):
		return "notexist"
	case os.IsExist(err):
		return "exist"
	}
	return "err"
}

func confRun(ctx context.Context, eng storage.Engine, root string, seq []confOp, inPlace bool) string {
	var b strings.Builder
	var handles [3]io.WriteCloser
	defer func() {
		for _, h := range handles {
			if h != nil {
				h.Close()
			}
		}
	}()
	for _, op := range seq {
		u := storage.MustParseURI("file://" + filepath.Join(root, op.path))
		switch op.kind {
		case "open1", "open2":
			i := int(op.kind[4] - '0')
			if handles[i] != nil {
				handles[i].Close()
			}
			w, err := eng.Put(ctx, u)
			handles[i] = w
			fmt.Fprintf(&b, "%s;", errCls(err))
		case "w1", "w2":
			i := int(op.kind[1] - '0')
			if handles[i] != nil {
				handles[i].Write([]byte(op.data))
			}
		case "close1", "close2":
			i := int(op.kind[5] - '0')
			if handles[i] != nil {
				fmt.Fprintf(&b, "%s;", errCls(handles[i].Close()))
				handles[i] = nil
			}
		case "put", "put2":
			w, err := eng.Put(ctx, u)
			if err != nil {
				fmt.Fprintf(&b, "%s;", errCls(err))
				continue
			}
			if op.kind == "put2" {
				w.Write([]byte(op.data[:1]))
				w.Write([]byte(op.data[1:]))
			} else if op.data != "" {
				w.Write([]byte(op.data))
			}
			fmt.Fprintf(&b, "%s;", errCls(w.Close()))
		case "putx":
			fmt.Fprintf(&b, "%s;", errCls(eng.PutIfNotExists(ctx, u, []byte(op.data))))
		case "get":
			r, err := eng.Get(ctx, u)
			if err != nil {
				fmt.Fprintf(&b, "%s;", errCls(err))
				continue
			}
			data, err := io.ReadAll(r)
			r.Close()
			fmt.Fprintf(&b, "%s:%q;", errCls(err), data)
		case "delete":
			fmt.Fprintf(&b, "%s;", errCls(eng.Delete(ctx, u)))
		case "deleteprefix":
			fmt.Fprintf(&b, "%s;", errCls(eng.DeleteByPrefix(ctx, u)))
		case "exists":
			ok, err := eng.Exists(ctx, u)
			fmt.Fprintf(&b, "%s:%v;", errCls(err), ok)
		case "size":
			n, err := eng.Size(ctx, u)
			fmt.Fprintf(&b, "%s:%d;", errCls(err), n)
		case "list":
			infos, err := eng.List(ctx, u)
			var names []string
			for _, i := range infos {
				names = append(names, fmt.Sprintf("%s/%d", i.Name, i.Size))
			}
			sort.Strings(names)
			fmt.Fprintf(&b, "%s:%v;", errCls(err), names)
		}
	}
	if !inPlace {
		// with atomic puts the visible contents while handles are still open
		// differ by design; close them before looking.
		for i, h := range handles {
			if h != nil {
				h.Close()
				handles[i] = nil
			}
		}
	}
	// final contents
	for _, p := range []string{"d/a", "d/b"} {
		u := storage.MustParseURI("file://" + filepath.Join(root, p))
		r, err := eng.Get(ctx, u)
		if err != nil {
			fmt.Fprintf(&b, "[%s %s]", p, errCls(err))
			continue
		}
		data, _ := io.ReadAll(r)
		r.Close()
		fmt.Fprintf(&b, "[%s %q]", p, data)
	}
	return b.String()
}

func vstoreConformance(maxLen int) (traces int, mismatch string, err error) {
	traces, mismatch, err = vstoreConformanceOver(confAlphabet(), maxLen)
	if err != nil || mismatch != "" {
		return
	}
	// overlapping handles on one path, deeper
	var handleOps []confOp
	for _, op := range confAlphabet() {
		if strings.HasPrefix(op.kind, "open") || strings.HasPrefix(op.kind, "w") || strings.HasPrefix(op.kind, "close") || (op.kind == "delete") {
			handleOps = append(handleOps, op)
		}
	}
	depth := maxLen + 1
	if rep.Thorough() {
		depth = maxLen + 2
	}
	n2, mismatch, err := vstoreConformanceOver(handleOps, depth)
	return traces + n2, mismatch, err
}

func vstoreConformanceOver(alpha []confOp, maxLen int) (traces int, mismatch string, err error) {
	ctx := context.Background()
	base, err := os.MkdirTemp("", "vstore-conf-")
	if err != nil {
		return 0, "", err
	}
	defer os.RemoveAll(base)
	n := 0
	var rec func(seq []confOp) bool
	rec = func(seq []confOp) bool {
		if len(seq) > 0 {
			n++
			dir := filepath.Join(base, fmt.Sprint(n))
			os.MkdirAll(dir, 0o755)
			real := confRun(ctx, storage.NewFileSystem(), dir, seq, true)
			os.RemoveAll(dir)
			multi := false
			for _, op := range seq {
				if strings.HasPrefix(op.kind, "open") {
					multi = true
				}
			}
			for _, mode := range []vstore.Mode{vstore.File, vstore.Atomic} {
				if mode == vstore.Atomic && multi {
					continue // overlapping handles: object-store semantics differ from a file system by design
				}
				st := vstore.NewStore(mode)
				model := confRun(ctx, vstore.NewEngine(st, "c", nil), "/root", seq, true)
				if model != real {
					mismatch = fmt.Sprintf("mode=%s seq=%v real=%s model=%s", mode, seq, real, model)
					return false
				}
			}
			traces++
		}
		if len(seq) == maxLen {
			return true
		}
		for _, op := range alpha {
			if !rec(append(seq[:len(seq):len(seq)], op)) {
				return false
			}
		}
		return true
	}
	rec(nil)
	return traces, mismatch, nil
}
