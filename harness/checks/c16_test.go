package checks

import (
	"context"
	"encoding/json"
	"fmt"
	"strings"
	"sync"
	"testing"

	zed "github.com/brimdata/super"
	"github.com/brimdata/super/order"
	"github.com/brimdata/super/runtime/sam/expr"
	"github.com/brimdata/super/zio/zsonio"
	"github.com/brimdata/super/zson"

	"verif/lk"
	"verif/rep"
	"verif/vstore"
)

// ---- C16: pool-key pruning never changes a query's result -------------------------

var c16Domain = []string{`1`, `2`, `2.5`, `3`, `"a"`, `true`, `null`}

func c16Atoms() []string {
	var atoms []string
	for _, c := range c16Domain {
		for _, op := range []string{"==", "!=", "<", "<=", ">", ">="} {
			atoms = append(atoms, fmt.Sprintf("k %s %s", op, c), fmt.Sprintf("%s %s k", c, op))
		}
	}
	return atoms
}

// c16Preds enumerates predicates of depth <= 2 over the atoms.
func c16Preds(full bool) []string {
	atoms := c16Atoms()
	other := `v=="x"`
	var preds []string
	preds = append(preds, atoms...)
	for _, a := range atoms {
		preds = append(preds, "not ("+a+")", a+" and "+other, a+" or "+other, other+" and "+a, "not ("+a+" and "+other+")")
	}
	for i, a := range atoms {
		for j, b := range atoms {
			if !full && (i*31+j*17)%6 != 0 {
				continue // quick: every sixth pair (deterministic), thorough: all
			}
			preds = append(preds, "("+a+") and ("+b+")", "("+a+") or ("+b+")")
		}
	}
	if full {
		for i, a := range atoms {
			for j, b := range atoms {
				if (i+j)%9 == 0 {
					preds = append(preds, "("+a+") and not ("+b+")", "not ("+a+") or ("+b+")", "(("+a+") or ("+b+")) and "+other)
				}
			}
		}
	}
	return preds
}

func TestC16(t *testing.T) {
	run := rep.Start("C16", "exploration")
	defer run.Finish(t)
	ctx := context.Background()
	var mu sync.Mutex
	report := func(sig string, d map[string]any) {
		mu.Lock()
		run.Violation(sig, d)
		mu.Unlock()
	}
	// ---- (A) pruner level, exhaustive over the domain -------------------------
	zctx := zed.NewContext()
	dom := make([]zed.Value, len(c16Domain))
	for i, s := range c16Domain {
		v, err := zson.ParseValue(zctx, s)
		if err != nil {
			t.Fatal(err)
		}
		dom[i] = v.Copy()
	}
	cmp := expr.NewValueCompareFn(order.Asc, true) // the lake's key order: nulls max
	// all (min,max) pairs with min <= max, as object records; inRange[r] = domain values within
	type rng struct {
		min, max int
		in       []int
	}
	var ranges []rng
	var rangeText strings.Builder
	for i := range dom {
		for j := range dom {
			if cmp(dom[i], dom[j]) > 0 {
				continue
			}
			r := rng{min: i, max: j}
			for s := range dom {
				if cmp(dom[i], dom[s]) <= 0 && cmp(dom[s], dom[j]) <= 0 {
					r.in = append(r.in, s)
				}
			}
			ranges = append(ranges, r)
			fmt.Fprintf(&rangeText, "{min:%s,max:%s,count:1(uint64),size:1}\n", c16Domain[i], c16Domain[j])
		}
	}
	var keyText strings.Builder
	for _, s := range c16Domain {
		fmt.Fprintf(&keyText, "{k:%s,v:\"x\"}\n{k:%s,v:\"y\"}\n", s, s)
	}
	keyText.WriteString("{v:\"x\"}\n") // key missing
	st, err := buildSetup(ctx, vstore.Atomic, []lk.Op{{Kind: "createpool", Pool: "p", Key: "k:asc"}, {Kind: "createpool", Pool: "pd", Key: "k:desc"}}, true)
	if err != nil {
		t.Fatal(err)
	}
	preds := c16Preds(rep.Thorough())
	var nPruners, nPruneDecisions int64
	for _, pool := range []string{"p", "pd"} {
		pool := pool
		parallel(len(preds), func(pi int) {
			pred := preds[pi]
			l, err := lk.Open(ctx, lk.NewEngine(st, "c", nil))
			if err != nil {
				t.Error(err)
				return
			}
			job, rctx, err := lakeJob(ctx, l, "from "+pool+" | where "+pred, true, 0, nil)
			if err != nil {
				report("pruner symptom=compile-error: "+errClass(err), map[string]any{"pred": pred})
				return
			}
			pruner := keyPrunerOf(job.Entry())
			rctx.Cancel()
			mu.Lock()
			run.Eval("pruner:" + pool + ":" + pred)
			mu.Unlock()
			if pruner == nil {
				return
			}
			pv, err := evalDAGExpr(ctx, pruner, zsonio.NewReader(zed.NewContext(), strings.NewReader(rangeText.String())))
			if err != nil || len(pv) != len(ranges) {
				report("pruner symptom=pruner-evaluation-failed: "+errClass(err), map[string]any{"pred": pred})
				return
			}
			fv, err := runQueryOnTextVals(ctx, keyText.String(), "yield ("+pred+")==true")
			if err != nil || len(fv) != 2*len(dom)+1 {
				report("pruner symptom=filter-evaluation-failed: "+errClass(err), map[string]any{"pred": pred})
				return
			}
			sat := make([]bool, len(dom)) // some value with key dom[s] satisfies the predicate
			for s := range dom {
				for _, x := range []int{2 * s, 2*s + 1} {
					if fv[x].Type() == zed.TypeBool && fv[x].Bool() {
						sat[s] = true
					}
				}
			}
			missingSat := fv[2*len(dom)].Type() == zed.TypeBool && fv[2*len(dom)].Bool()
			mu.Lock()
			nPruners++
			nPruneDecisions += int64(len(ranges))
			mu.Unlock()
			for ri, r := range ranges {
				if !(pv[ri].Type() == zed.TypeBool && pv[ri].Bool()) {
					continue
				}
				for _, s := range r.in {
					if sat[s] {
						report(fmt.Sprintf("pruner-unsound shape=%s", predShape(pred)),
							map[string]any{"pool": pool, "pred": pred, "object_min": c16Domain[r.min], "object_max": c16Domain[r.max], "key_in_range_satisfying_pred": c16Domain[s], "pruner": jsonOf(pruner)})
						return
					}
				}
				// missing keys are stored as null keys: an object whose max is null may hold them
				if c16Domain[r.max] == "null" && missingSat {
					report(fmt.Sprintf("pruner-unsound-for-missing-key shape=%s", predShape(pred)),
						map[string]any{"pool": pool, "pred": pred, "object_min": c16Domain[r.min], "object_max": c16Domain[r.max]})
					return
				}
			}
		})
	}
	run.Set("pruners_evaluated", nPruners)
	run.Set("prune_decisions_checked", nPruneDecisions)
	run.Sample(map[string]any{"part": "pruner level", "predicates": len(preds), "ranges": len(ranges), "domain": c16Domain, "example_predicate": preds[len(preds)/2]})
	// ---- (B) end to end: pruned vs unpruned plan, and delete-where -------------------
	type layout struct {
		name string
		ops  []lk.Op
	}
	all := `{k:1,v:"x"} {k:2,v:"y"} {k:2.5,v:"x"} {k:3,v:"y"} {k:"a",v:"x"} {k:true,v:"y"} {k:null,v:"x"} {v:"y"}`
	var layouts []layout
	for _, ord := range []string{"asc", "desc"} {
		layouts = append(layouts,
			layout{"one-value-per-object " + ord, []lk.Op{{Kind: "createpool", Pool: "p", Key: "k:" + ord, Thresh: 1, Stride: 1}, ld("p", "main", all)}},
			layout{"three-overlapping-objects stride=1 " + ord, []lk.Op{{Kind: "createpool", Pool: "p", Key: "k:" + ord, Stride: 1},
				ld("p", "main", `{k:1,v:"x"} {k:2,v:"y"} {k:3,v:"x"}`), ld("p", "main", `{k:2,v:"x"} {k:2.5,v:"y"} {k:"a",v:"x"} {k:3,v:"y"}`), ld("p", "main", `{k:3,v:"x"} {k:true,v:"y"} {k:null,v:"x"} {v:"y"} {k:1,v:"y"}`)}},
			layout{"one-object stride=1 " + ord, []lk.Op{{Kind: "createpool", Pool: "p", Key: "k:" + ord, Stride: 1}, ld("p", "main", all+` {k:2,v:"z"} {k:3,v:"z"}`)}},
		)
	}
	// objects that span several seek-index frames with a partial last frame: ten to
	// twelve records per object and strides of a few records
	var ten strings.Builder
	for i := 1; i <= 10; i++ {
		fmt.Fprintf(&ten, `{k:%d,v:"%s"} `, i, []string{"x", "y"}[i%2])
	}
	for _, ord := range []string{"asc", "desc"} {
		for _, stride := range []int{4, 16, 40} {
			layouts = append(layouts,
				layout{fmt.Sprintf("ten-keys-one-object stride=%d %s", stride, ord), []lk.Op{{Kind: "createpool", Pool: "p", Key: "k:" + ord, Stride: stride}, ld("p", "main", ten.String())}},
				layout{fmt.Sprintf("two-interleaved-objects stride=%d %s", stride, ord), []lk.Op{{Kind: "createpool", Pool: "p", Key: "k:" + ord, Stride: stride},
					ld("p", "main", `{k:1,v:"x"} {k:3,v:"y"} {k:5,v:"x"} {k:7,v:"y"} {k:9,v:"x"} {k:2.5,v:"y"} {k:1,v:"y"}`), ld("p", "main", `{k:2,v:"x"} {k:4,v:"y"} {k:6,v:"x"} {k:8,v:"y"} {k:10,v:"x"} {k:3,v:"x"} {k:2,v:"y"}`)}},
			)
		}
	}
	e2ePreds := c16Atoms()
	for _, c := range []string{"0", "5", "9", "10", "11"} {
		for _, op := range []string{"==", "<", "<=", ">", ">="} {
			e2ePreds = append(e2ePreds, "k"+op+c, c+op+"k")
		}
	}
	e2ePreds = append(e2ePreds, "k>=2 and k<=3", "k>3 and k<9", "k<2 or k>9", "k>=9 and k<=10", "k>=1 and k<2")
	for _, a := range c16Atoms() {
		e2ePreds = append(e2ePreds, "not ("+a+")", a+` and v=="x"`, a+` or v=="x"`)
	}
	if rep.Thorough() {
		atoms := c16Atoms()
		for i, a := range atoms {
			for j, b := range atoms {
				if (i*7+j*13)%10 == 0 {
					e2ePreds = append(e2ePreds, "("+a+") and ("+b+")", "("+a+") or ("+b+")")
				}
			}
		}
	}
	var e2e int64
	for _, lay := range layouts {
		base, err := buildSetup(ctx, vstore.Atomic, lay.ops, true)
		if err != nil {
			t.Fatal(err)
		}
		lay := lay
		parallel(len(e2ePreds), func(pi int) {
			pred := e2ePreds[pi]
			l, err := lk.Open(ctx, lk.NewEngine(base, "q", nil))
			if err != nil {
				t.Error(err)
				return
			}
			mu.Lock()
			e2e++
			run.Eval("e2e:" + lay.name + ":" + pred)
			mu.Unlock()
			src := "from p | where " + pred
			opt, err1 := lakeQueryVals(ctx, l, src, true, 1)
			par, err3 := lakeQueryVals(ctx, l, src, true, 2)
			raw, err2 := lakeQueryVals(ctx, l, src, false, 0)
			if err1 != nil || err2 != nil || err3 != nil {
				if (err1 == nil) != (err2 == nil) || (err3 == nil) != (err2 == nil) {
					report(fmt.Sprintf("end-to-end symptom=only-one-plan-fails shape=%s", predShape(pred)), map[string]any{"layout": lay.name, "pred": pred, "optimized_error": fmt.Sprint(err1), "parallel_error": fmt.Sprint(err3), "unoptimized_error": fmt.Sprint(err2)})
				}
				return
			}
			if !sameMultiset(formatAll(opt), formatAll(raw)) {
				report(fmt.Sprintf("end-to-end symptom=pruned-query-differs-from-full-scan shape=%s", predShape(pred)),
					map[string]any{"layout": lay.name, "pred": pred, "pruned": formatAll(opt), "full_scan_then_filter": formatAll(raw)})
				return
			}
			if !sameMultiset(formatAll(par), formatAll(raw)) {
				report(fmt.Sprintf("end-to-end symptom=pruned-parallel-query-differs-from-full-scan shape=%s", predShape(pred)),
					map[string]any{"layout": lay.name, "pred": pred, "pruned": formatAll(par), "full_scan_then_filter": formatAll(raw)})
				return
			}
			// delete-where on a clone: what remains must be exactly the values for which pred is not true
			img := base.Clone()
			lw, err := lk.Open(ctx, lk.NewEngine(img, "w", nil))
			if err != nil {
				t.Error(err)
				return
			}
			before, err := lw.Query(ctx, "from p")
			if err != nil {
				t.Error(err)
				return
			}
			match, err := evalPred(ctx, before, pred)
			if err != nil {
				return
			}
			var want []string
			anyMatch := false
			for i, v := range before {
				if match[i] {
					anyMatch = true
				} else {
					want = append(want, v)
				}
			}
			_, derr := lw.Apply(ctx, lk.Op{Kind: "deletewhere", Pool: "p", Branch: "main", Name: pred})
			after, qerr := lw.Query(ctx, "from p")
			if qerr != nil {
				report("delete-where symptom=pool-unreadable-afterwards: "+errClass(qerr), map[string]any{"layout": lay.name, "pred": pred})
				return
			}
			if derr != nil {
				if anyMatch && !strings.Contains(derr.Error(), "empty") {
					// a refusal for another reason is not a pruning matter; only state is checked
				}
				if anyMatch && strings.Contains(derr.Error(), "empty") {
					report(fmt.Sprintf("delete-where symptom=nothing-deleted-although-values-match shape=%s", predShape(pred)), map[string]any{"layout": lay.name, "pred": pred, "error": derr.Error(), "matching": len(before) - len(want)})
					return
				}
				want = before
			}
			if !sameMultiset(after, want) {
				report(fmt.Sprintf("delete-where symptom=remaining-values-differ-from-model shape=%s", predShape(pred)),
					map[string]any{"layout": lay.name, "pred": pred, "remaining": after, "expected": want, "delete_error": fmt.Sprint(derr)})
			}
		})
	}
	run.Set("end_to_end_cases", e2e)
	run.Sample(map[string]any{"part": "end to end", "layouts": len(layouts), "predicates": len(e2ePreds), "example": e2ePreds[len(e2ePreds)/3]})
	run.Set("exhaustive", true)
	run.Set("rule", "pruner level: every predicate of depth <= 2 over atoms {k op c, c op k} (op in ==,!=,<,<=,>,>=; c in {1,2,2.5,3,\"a\",true,null}) with and/or/not and a non-key atom (quick: every sixth atom pair; thorough: all) on an asc and a desc pool: the optimizer's real KeyPruner expression is evaluated by the real kernel on every (min,max) range over the domain, the real filter on every key of the domain (and a missing key); violation iff the pruner fires on a range that contains a key whose value satisfies the predicate. End to end: every atom (+ negation, and/or with a non-key predicate; thorough also atom pairs) and key comparisons with constants 0,5,9,10,11 and five bounded ranges x 18 pool layouts (one value per object; three overlapping objects; one object, all with seek stride 1 byte; one ten-key object and two interleaved objects with seek strides 4, 16 and 40 bytes so that objects span several seek frames with a partial last frame; asc/desc): optimized (parallelism 1 and 2) vs unoptimized plan, and delete-where vs per-value evaluation")
	run.Assume("literals and keys range over a 7-value cross-type domain; randomly generated pools and filters are outside this technique")
}

// predShape abstracts a predicate to its operator/side structure for signatures.
func predShape(pred string) string {
	s := pred
	for _, c := range c16Domain {
		s = strings.ReplaceAll(s, " "+c+" ", " C ")
		s = strings.ReplaceAll(s, "("+c+" ", "(C ")
		s = strings.ReplaceAll(s, " "+c+")", " C)")
		if strings.HasPrefix(s, c+" ") {
			s = "C " + s[len(c)+1:]
		}
		if strings.HasSuffix(s, " "+c) {
			s = s[:len(s)-len(c)] + "C"
		}
	}
	return s
}

func jsonOf(v any) string {
	b, err := json.Marshal(v)
	if err != nil {
		return err.Error()
	}
	return string(b)
}
