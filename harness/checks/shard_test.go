package checks

import (
	"encoding/json"
	"fmt"
	"os"
	"os/exec"
	"runtime"
	"strconv"
	"sync"
	"testing"
	"time"
)

// runShards runs each scenario in its own child process (the id generator and
// the bubble scheduler are per-process), up to NumCPU at a time.
func runShards(t *testing.T, scs []concScenario, only string, deadline time.Time, maxExecs int) []*concResult {
	workers := runtime.NumCPU()
	if s := os.Getenv("VERIF_WORKERS"); s != "" {
		workers, _ = strconv.Atoi(s)
	}
	if workers < 1 {
		workers = 1
	}
	tmp, err := os.MkdirTemp("", "verif-shards-")
	if err != nil {
		t.Fatal(err)
	}
	defer os.RemoveAll(tmp)
	results := make([]*concResult, len(scs))
	var wg sync.WaitGroup
	sem := make(chan struct{}, workers)
	var mu sync.Mutex
	var failures []string
	for i, sc := range scs {
		if only != "" && sc.Name+"/"+sc.Mode != only && sc.Name != only {
			continue
		}
		i, sc := i, sc
		wg.Add(1)
		go func() {
			defer wg.Done()
			sem <- struct{}{}
			defer func() { <-sem }()
			spec, _ := json.Marshal(sc)
			out := fmt.Sprintf("%s/%d.json", tmp, i)
			cmd := exec.Command(os.Args[0], "-test.run", "^TestConcChild$", "-test.timeout", "0")
			cmd.Env = append(os.Environ(),
				"VERIF_CHILD_SPEC="+string(spec), "VERIF_CHILD_OUT="+out,
				"VERIF_CHILD_DEADLINE="+strconv.FormatInt(deadline.UnixNano(), 10),
				"VERIF_CHILD_MAXEXECS="+strconv.Itoa(maxExecs), "GOMAXPROCS=2")
			b, err := cmd.CombinedOutput()
			data, rerr := os.ReadFile(out)
			if rerr != nil {
				mu.Lock()
				failures = append(failures, fmt.Sprintf("%s/%s: child failed: %v\n%s", sc.Name, sc.Mode, err, tail(string(b), 3000)))
				mu.Unlock()
				return
			}
			var r concResult
			if err := json.Unmarshal(data, &r); err != nil {
				mu.Lock()
				failures = append(failures, fmt.Sprintf("%s/%s: bad child output: %v", sc.Name, sc.Mode, err))
				mu.Unlock()
				return
			}
			results[i] = &r
		}()
	}
	wg.Wait()
	if len(failures) > 0 {
		for _, f := range failures {
			fmt.Println("HARNESS-ERROR:", f)
		}
		t.Fatalf("%d scenario child processes failed", len(failures))
	}
	var out []*concResult
	for _, r := range results {
		if r != nil {
			out = append(out, r)
		}
	}
	return out
}

func tail(s string, n int) string {
	if len(s) > n {
		return s[len(s)-n:]
	}
	return s
}

func TestConcChild(t *testing.T) {
	spec := os.Getenv("VERIF_CHILD_SPEC")
	if spec == "" {
		t.Skip("child-only")
	}
	var sc concScenario
	if err := json.Unmarshal([]byte(spec), &sc); err != nil {
		t.Fatal(err)
	}
	ns, _ := strconv.ParseInt(os.Getenv("VERIF_CHILD_DEADLINE"), 10, 64)
	maxExecs, _ := strconv.Atoi(os.Getenv("VERIF_CHILD_MAXEXECS"))
	r := exploreScenario(t, sc, time.Unix(0, ns), maxExecs)
	b, err := json.Marshal(r)
	if err != nil {
		t.Fatal(err)
	}
	if err := os.WriteFile(os.Getenv("VERIF_CHILD_OUT"), b, 0o644); err != nil {
		t.Fatal(err)
	}
}
