package checks

import (
	"context"
	"errors"
	"fmt"
	"sort"
	"strings"
	"testing"
	"time"

	zed "github.com/brimdata/super"
	"github.com/brimdata/super/order"
	"github.com/brimdata/super/runtime/sam/expr"
	"github.com/brimdata/super/zbuf"
	"github.com/brimdata/super/zio/zsonio"
	"github.com/brimdata/super/zson"

	"verif/lk"
	"verif/rep"
	"verif/vsched"
	"verif/vstore"
)

func cmpKeys(order.Which) func(a, b zed.Value) int {
	f := expr.NewValueCompareFn(order.Asc, true)
	return func(a, b zed.Value) int { return f(a, b) }
}

// ---- history search over the real lake, bound to the model at every state -------

// hOp is an operation of the history alphabet, in model terms.
type hOp struct {
	Kind   string `json:"kind"`
	Branch string `json:"branch,omitempty"`
	Batch  int    `json:"batch,omitempty"` // load: index into the batch alphabet
	Obj    []int  `json:"obj,omitempty"`   // indices into the branch's canonical object list
	Pred   string `json:"pred,omitempty"`  // deletewhere
	Vec    bool   `json:"vec,omitempty"`   // compact with vectors
	Name   string `json:"name,omitempty"`  // createbranch: new name; merge: child
	At     int    `json:"at,omitempty"`    // createbranch: index into branch chain, -1 tip, -2 nil; revert: index into chain
}

func (o hOp) String() string {
	s := o.Kind
	if o.Branch != "" {
		s += "@" + o.Branch
	}
	switch o.Kind {
	case "load":
		s += fmt.Sprintf(" batch%d", o.Batch)
	case "delete", "compact", "addvec", "delvec":
		s += fmt.Sprintf(" %v", o.Obj)
		if o.Vec {
			s += " +vec"
		}
	case "deletewhere":
		s += " " + o.Pred
	case "createbranch":
		s += fmt.Sprintf(" %s at=%d", o.Name, o.At)
	case "merge":
		s += " child=" + o.Name
	case "revert":
		s += fmt.Sprintf(" commit#%d", o.At)
	}
	return s
}

type hConfig struct {
	Name    string
	Key     string
	Thresh  int64
	Stride  int
	Batches []string
	Preds   []string
	Ops     func(m *mLake, cfg *hConfig) []hOp
	// Prefix is a fixed history applied first: the search then starts from a
	// non-initial state (and reaches deeper histories at the same cost).
	Prefix []hOp
	// DepthAdj is added to the tier's depth for this configuration
	// (index 0 quick, 1 thorough).
	DepthAdj [2]int
}

type hNode struct {
	store *vstore.Store
	model *mLake
	hist  []string
}

type hViolation struct {
	Sig    string
	Detail map[string]any
}

type hResult struct {
	Config           string
	States           int
	Transitions      int
	Depth            int
	MaxDepth         int
	Complete         bool
	Queries          int
	OldCommitQueries int
	ObjectsAudited   int
	Violations       []hViolation
	Samples          []string
	OpKinds          map[string]int
	ErrOps           int
}

const hPool = "p"

// evalPred evaluates pred on each value with the sequential runtime in memory
// (no lake, no pruning): the reference for delete-where.
func evalPred(ctx context.Context, vals []string, pred string) ([]bool, error) {
	out := make([]bool, len(vals))
	for i, v := range vals {
		res, err := runQueryOnText(ctx, v, "yield ("+pred+")==true")
		if err != nil {
			return nil, err
		}
		out[i] = len(res) == 1 && res[0] == "true"
	}
	return out, nil
}

// applyModel applies op to the model given what the real side did.  It returns
// the expectation about success: "ok", "err", or "either".
type expectation struct {
	outcome string // ok | err | either
	// bind checks the new real commit against the model's prediction and
	// installs it; called only when the real op succeeded.
	bind func(m *mLake, real *rLake, newCommit *rCommit) string
}

// msAdd and msSub are multiset union and (saturating) difference.
func msAdd(a, b []string) []string { return append(append([]string(nil), a...), b...) }

func msSub(a, b []string) []string {
	n := map[string]int{}
	for _, x := range b {
		n[x]++
	}
	var out []string
	for _, x := range a {
		if n[x] > 0 {
			n[x]--
			continue
		}
		out = append(out, x)
	}
	return out
}

func sortedCopy(s []string) []string {
	c := append([]string(nil), s...)
	sort.Strings(c)
	return c
}

func sameMultiset(a, b []string) bool {
	return strings.Join(sortedCopy(a), "\x00") == strings.Join(sortedCopy(b), "\x00")
}

// adoptAdds turns the real commit's added objects into model objects and checks
// that together they hold exactly want.
func adoptAdds(m *mLake, real *rLake, rc *rCommit, want []string) ([]int, string) {
	var ids []int
	var got []string
	for _, rid := range rc.Adds {
		ro := real.Objs[rid]
		if ro == nil || !ro.Exists {
			return nil, fmt.Sprintf("added object %s has no data file", rid)
		}
		if len(ro.Vals) == 0 {
			return nil, "added object is empty"
		}
		got = append(got, ro.Vals...)
		ids = append(ids, m.newObj(ro.Vals, rid).ID)
	}
	if !sameMultiset(got, want) {
		return nil, fmt.Sprintf("new objects hold %v, expected %v", sortedCopy(got), sortedCopy(want))
	}
	return ids, ""
}

func realIDs(m *mLake, ids []int) []string {
	var out []string
	for _, id := range ids {
		out = append(out, m.Objs[id].Real)
	}
	sort.Strings(out)
	return out
}

func sameSet(a, b []string) bool {
	return strings.Join(sortedCopy(a), ",") == strings.Join(sortedCopy(b), ",")
}

func parseBatch(text string) ([]string, error) {
	zctx := zed.NewContext()
	r := zsonio.NewReader(zctx, strings.NewReader(text))
	var out []string
	for {
		v, err := r.Read()
		if err != nil {
			return nil, err
		}
		if v == nil {
			return out, nil
		}
		out = append(out, zson.FormatValue(*v))
	}
}

func (cfg *hConfig) expect(ctx context.Context, m *mLake, op hOp) (lk.Op, expectation, error) {
	tip := m.Branches[op.Branch]
	objs := m.objList(tip)
	pick := func() ([]*mObj, []string) {
		var sel []*mObj
		var ids []string
		for _, i := range op.Obj {
			sel = append(sel, objs[i])
			ids = append(ids, objs[i].Real)
		}
		return sel, ids
	}
	_, vecs := m.snap(tip)
	switch op.Kind {
	case "load":
		want, err := parseBatch(cfg.Batches[op.Batch])
		if err != nil {
			return lk.Op{}, expectation{}, err
		}
		lop := ld(hPool, op.Branch, cfg.Batches[op.Batch])
		if len(want) == 0 {
			return lop, expectation{outcome: "err"}, nil
		}
		return lop, expectation{outcome: "ok", bind: func(m *mLake, real *rLake, rc *rCommit) string {
			ids, s := adoptAdds(m, real, rc, want)
			if s != "" {
				return s
			}
			if len(rc.Dels)+len(rc.AddVec)+len(rc.DelVec) != 0 {
				return "load commit carries other actions"
			}
			m.newCommit(op.Branch, &mCommit{Adds: ids, Real: rc.ID})
			return ""
		}}, nil
	case "delete":
		sel, ids := pick()
		return lk.Op{Kind: "delete", Pool: hPool, Branch: op.Branch, IDs: ids}, expectation{outcome: "ok", bind: func(m *mLake, real *rLake, rc *rCommit) string {
			if !sameSet(rc.Dels, ids) || len(rc.Adds)+len(rc.AddVec)+len(rc.DelVec) != 0 {
				return fmt.Sprintf("delete commit has dels=%v adds=%v", rc.Dels, rc.Adds)
			}
			c := &mCommit{Real: rc.ID}
			for _, o := range sel {
				c.Dels = append(c.Dels, o.ID)
			}
			m.newCommit(op.Branch, c)
			return ""
		}}, nil
	case "deletewhere":
		var delObjs []*mObj
		var keep []string
		for _, o := range objs {
			match, err := evalPred(ctx, o.Vals, op.Pred)
			if err != nil {
				return lk.Op{}, expectation{}, err
			}
			hit := false
			var k []string
			for i, v := range o.Vals {
				if match[i] {
					hit = true
				} else {
					k = append(k, v)
				}
			}
			if hit {
				delObjs = append(delObjs, o)
				keep = append(keep, k...)
			}
		}
		lop := lk.Op{Kind: "deletewhere", Pool: hPool, Branch: op.Branch, Name: op.Pred}
		if len(delObjs) == 0 {
			return lop, expectation{outcome: "err"}, nil
		}
		return lop, expectation{outcome: "ok", bind: func(m *mLake, real *rLake, rc *rCommit) string {
			var want []string
			c := &mCommit{Real: rc.ID}
			for _, o := range delObjs {
				want = append(want, o.Real)
				c.Dels = append(c.Dels, o.ID)
			}
			if !sameSet(rc.Dels, want) {
				return fmt.Sprintf("delete-where removed objects %v, the predicate matches values in %v", rc.Dels, want)
			}
			ids, s := adoptAdds(m, real, rc, keep)
			if s != "" {
				return "delete-where: " + s
			}
			c.Adds = ids
			m.newCommit(op.Branch, c)
			return ""
		}}, nil
	case "compact":
		sel, ids := pick()
		var want []string
		for _, o := range sel {
			want = append(want, o.Vals...)
		}
		return lk.Op{Kind: "compact", Pool: hPool, Branch: op.Branch, IDs: ids, Vec: op.Vec}, expectation{outcome: "ok", bind: func(m *mLake, real *rLake, rc *rCommit) string {
			if !sameSet(rc.Dels, ids) {
				return fmt.Sprintf("compact commit deletes %v, asked %v", rc.Dels, ids)
			}
			nids, s := adoptAdds(m, real, rc, want)
			if s != "" {
				return "compact: " + s
			}
			c := &mCommit{Adds: nids, Real: rc.ID}
			for _, o := range sel {
				c.Dels = append(c.Dels, o.ID)
			}
			if op.Vec {
				if !sameSet(rc.AddVec, rc.Adds) {
					return fmt.Sprintf("compact with vectors: vectors %v for objects %v", rc.AddVec, rc.Adds)
				}
				c.AddVec = nids
			} else if len(rc.AddVec) != 0 {
				return "compact without vectors added vectors"
			}
			m.newCommit(op.Branch, c)
			return ""
		}}, nil
	case "addvec", "delvec":
		sel, ids := pick()
		has := vecs[sel[0].ID]
		lop := lk.Op{Kind: op.Kind, Pool: hPool, Branch: op.Branch, IDs: ids}
		if (op.Kind == "addvec") == has {
			return lop, expectation{outcome: "err"}, nil
		}
		return lop, expectation{outcome: "ok", bind: func(m *mLake, real *rLake, rc *rCommit) string {
			c := &mCommit{Real: rc.ID}
			if op.Kind == "addvec" {
				if !sameSet(rc.AddVec, ids) {
					return "addvec commit mismatch"
				}
				c.AddVec = []int{sel[0].ID}
			} else {
				if !sameSet(rc.DelVec, ids) {
					return "delvec commit mismatch"
				}
				c.DelVec = []int{sel[0].ID}
			}
			m.newCommit(op.Branch, c)
			return ""
		}}, nil
	case "revert":
		chain := m.chain(tip)
		target := m.Commits[chain[op.At]]
		cur, _ := m.snap(tip)
		var dels, adds []int
		for _, o := range target.Adds {
			if cur[o] {
				dels = append(dels, o)
			}
		}
		for _, o := range target.Dels {
			if !cur[o] {
				adds = append(adds, o)
			}
		}
		lop := lk.Op{Kind: "revert", Pool: hPool, Branch: op.Branch, IDs: []string{target.Real}}
		if len(dels)+len(adds) == 0 {
			return lop, expectation{outcome: "err"}, nil
		}
		return lop, expectation{outcome: "ok", bind: func(m *mLake, real *rLake, rc *rCommit) string {
			if !sameSet(rc.Dels, realIDs(m, dels)) || !sameSet(rc.Adds, realIDs(m, adds)) {
				return fmt.Sprintf("revert commit dels=%v adds=%v, model dels=%v adds=%v", rc.Dels, rc.Adds, realIDs(m, dels), realIDs(m, adds))
			}
			m.newCommit(op.Branch, &mCommit{Adds: adds, Dels: dels, Real: rc.ID})
			return ""
		}}, nil
	case "createbranch":
		parent := 0
		chain := m.chain(tip)
		switch {
		case op.At == -2:
		case op.At == -1:
			parent = tip
		default:
			parent = chain[op.At]
		}
		lop := lk.Op{Kind: "createbranch", Pool: hPool, Branch: op.Branch, Name: op.Name, At: -2}
		if parent != 0 {
			lop.IDs = []string{m.Commits[parent].Real}
		}
		if _, exists := m.Branches[op.Name]; exists {
			return lop, expectation{outcome: "err"}, nil
		}
		return lop, expectation{outcome: "ok", bind: func(m *mLake, real *rLake, rc *rCommit) string {
			m.Branches[op.Name] = parent
			return ""
		}}, nil
	case "merge":
		// child op.Name into parent op.Branch
		child, parent := m.Branches[op.Name], tip
		cchain, pchain := m.chain(child), m.chain(parent)
		inP := map[int]bool{}
		for _, c := range pchain {
			inP[c] = true
		}
		base := 0
		for i := len(cchain) - 1; i >= 0; i-- {
			if inP[cchain[i]] {
				base = cchain[i]
				break
			}
		}
		lop := lk.Op{Kind: "merge", Pool: hPool, Branch: op.Branch, Name: op.Name}
		bs, _ := m.snap(base)
		cs, _ := m.snap(child)
		ps, _ := m.snap(parent)
		var adds, dels []int
		for o := range cs {
			if !bs[o] && !ps[o] {
				adds = append(adds, o)
			}
		}
		for o := range bs {
			if !cs[o] && ps[o] {
				dels = append(dels, o)
			}
		}
		sort.Ints(adds)
		sort.Ints(dels)
		// The implementation may refuse (conflict, nothing to merge, no common
		// ancestor); then the parent must be untouched — checked by the caller.
		return lop, expectation{outcome: "either", bind: func(m *mLake, real *rLake, rc *rCommit) string {
			if !sameSet(rc.Dels, realIDs(m, dels)) || !sameSet(rc.Adds, realIDs(m, adds)) {
				return fmt.Sprintf("merge commit dels=%v adds=%v, model dels=%v adds=%v", rc.Dels, rc.Adds, realIDs(m, dels), realIDs(m, adds))
			}
			// The property is about data, not objects: a value the child deleted since the
			// common ancestor must not survive the merge inside another object of the parent
			// (e.g. one the parent compacted it into).  For every value v the child removed on
			// balance (fewer copies in the child than at the ancestor), the parent must end up
			// with that many fewer copies than it had (never below zero: it may have removed
			// them itself).
			cnt := func(vals []string) map[string]int {
				n := map[string]int{}
				for _, v := range vals {
					n[v]++
				}
				return n
			}
			ca, cc, cp := cnt(m.values(base)), cnt(m.values(child)), cnt(m.values(parent))
			m.newCommit(op.Branch, &mCommit{Adds: adds, Dels: dels, Real: rc.ID})
			after := cnt(m.values(m.Branches[op.Branch]))
			for v, na := range ca {
				if removed := na - cc[v]; removed > 0 {
					want := cp[v] - removed
					if want < 0 {
						want = 0
					}
					if after[v] > want {
						return fmt.Sprintf("merge succeeded but a value the child deleted since the common ancestor survives in the parent: %s (copies: ancestor %d, child %d, parent before %d, parent after %d)", v, na, cc[v], cp[v], after[v])
					}
				}
			}
			return ""
		}}, nil
	case "vacuum":
		return lk.Op{Kind: "vacuum", Pool: hPool, Branch: op.Branch}, expectation{outcome: "ok", bind: nil}, nil
	}
	return lk.Op{}, expectation{}, fmt.Errorf("unknown op %v", op)
}

// step applies op to a clone of the node; returns the successor (nil if the op
// failed and nothing changed) and violations.
func (cfg *hConfig) step(t *testing.T, ctx context.Context, n *hNode, op hOp, res *hResult) (*hNode, []hViolation) {
	var viol []hViolation
	fail := func(sym string, detail map[string]any) {
		if detail == nil {
			detail = map[string]any{}
		}
		detail["config"] = cfg.Name
		detail["history"] = append(append([]string(nil), n.hist...), op.String())
		viol = append(viol, hViolation{fmt.Sprintf("config=%s op=%s symptom=%s", cfg.Name, op.Kind, sym), detail})
	}
	m := n.model.clone()
	lop, exp, err := cfg.expect(ctx, m, op)
	if err != nil {
		t.Fatalf("harness: expectation for %v: %v", op, err)
	}
	st := n.store.Clone()
	var opErr error
	var real *rLake
	var exErr error
	bubble(t, func() {
		vsched.SetCurrent(0)
		l, err := lk.Open(ctx, lk.NewEngine(st, "w", nil))
		if err != nil {
			opErr = fmt.Errorf("open: %w", err)
			return
		}
		_, opErr = l.Apply(ctx, lop)
		vsched.SetCurrent(-2)
		real, exErr = extractReal(ctx, st, hPool)
	})
	if errors.Is(opErr, lk.ErrSkip) {
		return nil, nil
	}
	if exErr != nil {
		fail("state-unreadable-after-op: "+symClass(errClass(exErr)), map[string]any{"op_error": fmt.Sprint(opErr)})
		return nil, viol
	}
	res.OpKinds[op.Kind]++
	if opErr != nil {
		res.ErrOps++
		if exp.outcome == "ok" {
			fail("operation-failed-unexpectedly: "+errClass(opErr), nil)
			return nil, viol
		}
		// failure: every branch tip unchanged, nothing new reachable
		for b, tip := range n.model.Branches {
			want := ""
			if tip != 0 {
				want = n.model.Commits[tip].Real
			}
			if real.Branches[b] != want {
				fail("failed-operation-moved-a-branch", map[string]any{"branch": b, "op_error": opErr.Error()})
			}
		}
		if len(real.Branches) != len(n.model.Branches) {
			fail("failed-operation-changed-the-branch-set", nil)
		}
		if len(viol) > 0 {
			return nil, viol
		}
		// state unchanged (as far as the model goes): still audit readability
		nn := &hNode{store: st, model: n.model, hist: append(append([]string(nil), n.hist...), op.String()+"→err")}
		viol = append(viol, cfg.audit(t, ctx, nn, real, res)...)
		return nil, viol
	}
	if exp.outcome == "err" {
		fail("operation-succeeded-but-model-expects-failure", nil)
		return nil, viol
	}
	// success: find the new commit (if the op makes one)
	if op.Kind == "vacuum" {
		// files of objects not in the tip's snapshot are gone
		objs, _ := m.snap(m.Branches[op.Branch])
		for _, c := range m.chain(m.Branches[op.Branch]) {
			for _, o := range m.Commits[c].Adds {
				if !objs[o] {
					m.Vacuumed[o] = true
				}
			}
		}
	} else if op.Kind == "createbranch" {
		if s := exp.bind(m, real, nil); s != "" {
			fail(s, nil)
			return nil, viol
		}
	} else {
		tip := real.Branches[op.Branch]
		rc := real.Commits[tip]
		oldTip := ""
		if t0 := n.model.Branches[op.Branch]; t0 != 0 {
			oldTip = n.model.Commits[t0].Real
		}
		if rc == nil || tip == oldTip {
			fail("acknowledged-operation-did-not-move-the-branch", nil)
			return nil, viol
		}
		if rc.Parent != oldTip {
			fail("new-commit-parent-is-not-the-previous-tip", map[string]any{"parent": rc.Parent, "previous_tip": oldTip})
			return nil, viol
		}
		if s := exp.bind(m, real, rc); s != "" {
			fail("commit-differs-from-model: "+s, nil)
			return nil, viol
		}
	}
	nn := &hNode{store: st, model: m, hist: append(append([]string(nil), n.hist...), op.String())}
	viol = append(viol, cfg.audit(t, ctx, nn, real, res)...)
	if len(viol) > 0 {
		return nil, viol
	}
	return nn, nil
}

// audit compares the complete real state with the model and runs the query
// oracles.
func (cfg *hConfig) audit(t *testing.T, ctx context.Context, n *hNode, real *rLake, res *hResult) []hViolation {
	var viol []hViolation
	m := n.model
	fail := func(sym string, detail map[string]any) {
		if detail == nil {
			detail = map[string]any{}
		}
		detail["config"] = cfg.Name
		detail["history"] = n.hist
		viol = append(viol, hViolation{fmt.Sprintf("config=%s symptom=%s", cfg.Name, sym), detail})
	}
	// structure: branches, commit chains, actions
	if len(real.Branches) != len(m.Branches) {
		fail("branch-set-differs", map[string]any{"real": real.Branches})
	}
	for b, tip := range m.Branches {
		want := ""
		if tip != 0 {
			want = m.Commits[tip].Real
		}
		if real.Branches[b] != want {
			fail("branch-tip-differs-from-model", map[string]any{"branch": b})
		}
	}
	for _, c := range m.Commits {
		rc := real.Commits[c.Real]
		reach := false
		for _, tip := range m.Branches {
			for _, x := range m.chain(tip) {
				if x == c.ID {
					reach = true
				}
			}
		}
		if !reach {
			continue
		}
		if rc == nil {
			fail("commit-object-missing-or-unreachable", map[string]any{"commit": c.ID})
			continue
		}
		wantParent := ""
		if c.Parent != 0 {
			wantParent = m.Commits[c.Parent].Real
		}
		if rc.Parent != wantParent || !sameSet(rc.Adds, realIDs(m, c.Adds)) || !sameSet(rc.Dels, realIDs(m, c.Dels)) ||
			!sameSet(rc.AddVec, realIDs(m, c.AddVec)) || !sameSet(rc.DelVec, realIDs(m, c.DelVec)) {
			fail("commit-object-changed", map[string]any{"commit": c.ID})
		}
	}
	// object metadata and seek indexes
	for _, o := range real.Objs {
		if o.Exists {
			res.ObjectsAudited++
			if o.SeekOK != "" {
				fail("object-metadata: "+rep_short(o.SeekOK), map[string]any{"object": o.ID, "values": o.Vals})
			}
		}
	}
	// files of live objects must exist; vacuumed ones must be gone
	for id, o := range m.Objs {
		ro := real.Objs[o.Real]
		if ro == nil {
			continue
		}
		if m.Vacuumed[id] && ro.Exists {
			fail("vacuumed-object-file-still-present", nil)
		}
		if !m.Vacuumed[id] && !ro.Exists {
			fail("data-file-of-unvacuumed-object-missing", nil)
		}
	}
	// queries: each branch tip, then every commit ever made (immutability)
	zctx := zed.NewContext()
	keys, _ := order.ParseSortKeys(cfg.Key)
	cmp := zbuf.NewComparatorNullsMax(zctx, keys)
	check := func(what, rev string, commit int, isTip bool) {
		objs, _ := m.snap(commit)
		for o := range objs {
			if m.Vacuumed[o] {
				return // explicitly vacuumed: outside the claim
			}
		}
		want := m.values(commit)
		var first []string
		repeats := 3
		if !isTip {
			repeats = 1
		}
		for rpt := 0; rpt < repeats; rpt++ {
			var got []string
			var err error
			bubble(t, func() {
				vsched.SetCurrent(-2)
				l, oerr := lk.Open(ctx, lk.NewEngine(n.store.Clone(), "q", nil))
				if oerr != nil {
					err = oerr
					return
				}
				got, err = l.Query(ctx, fmt.Sprintf("from %s@%s", hPool, rev))
			})
			res.Queries++
			if err != nil {
				fail(what+"-query-failed: "+symClass(errClass(err)), map[string]any{"rev": rev})
				return
			}
			if !sameMultiset(got, want) {
				fail(what+"-contents-differ-from-model", map[string]any{"got": got, "want": want, "commit": commit})
				return
			}
			if isTip {
				// pool-key order
				vals := make([]zed.Value, len(got))
				for i, s := range got {
					v, perr := zson.ParseValue(zctx, s)
					if perr != nil {
						t.Fatalf("harness: reparse %s: %v", s, perr)
					}
					vals[i] = v
				}
				for i := 1; i < len(vals); i++ {
					if cmp.Compare(vals[i-1], vals[i]) > 0 {
						fail("scan-not-in-pool-key-order", map[string]any{"got": got})
						return
					}
				}
				if s := nullPlacement(vals, keys); s != "" {
					fail("scan-null-placement: "+s, map[string]any{"got": got})
					return
				}
				if rpt == 0 {
					first = got
				} else if strings.Join(first, "\x00") != strings.Join(got, "\x00") {
					fail("scan-order-not-deterministic", map[string]any{"run1": first, "run2": got})
					return
				}
			}
		}
		if isTip {
			// the same scan planned for one scan worker and for three (the default follows GOMAXPROCS)
			for _, par := range []int{1, 3} {
				var vals []zed.Value
				var err error
				bubble(t, func() {
					vsched.SetCurrent(-2)
					l, oerr := lk.Open(ctx, lk.NewEngine(n.store.Clone(), "q", nil))
					if oerr != nil {
						err = oerr
						return
					}
					vals, err = lakeQueryVals1(ctx, l, fmt.Sprintf("from %s@%s", hPool, rev), true, par)
				})
				res.Queries++
				if err != nil {
					fail(fmt.Sprintf("%s-query-failed at parallelism %d: %s", what, par, symClass(errClass(err))), map[string]any{"rev": rev})
					return
				}
				got := formatAll(vals)
				if !sameMultiset(got, want) {
					fail(fmt.Sprintf("%s-contents-differ-from-model at parallelism %d", what, par), map[string]any{"got": got, "want": want})
					return
				}
				// (into the comparator's context, like the scans above)
				for i, s := range got {
					v, perr := zson.ParseValue(zctx, s)
					if perr != nil {
						t.Fatalf("harness: reparse %s: %v", s, perr)
					}
					vals[i] = v
				}
				for i := 1; i < len(vals); i++ {
					if cmp.Compare(vals[i-1], vals[i]) > 0 {
						fail(fmt.Sprintf("scan-not-in-pool-key-order at parallelism %d", par), map[string]any{"got": formatAll(vals)})
						return
					}
				}
			}
		}
	}
	for b, tip := range m.Branches {
		check("branch", b, tip, true)
	}
	tips := map[int]bool{}
	for _, tip := range m.Branches {
		tips[tip] = true
	}
	for id, c := range m.Commits {
		if !tips[id] {
			res.OldCommitQueries++
			check("old-commit", c.Real, id, false)
		}
	}
	// A reader that stays open (warm caches): one handle reads every branch tip and then
	// every commit, oldest first; a second handle reads the commits newest first and then
	// the tips.  What a commit shows must not depend on what the handle has read before.
	var ids []int
	for id := range m.Commits {
		ids = append(ids, id)
	}
	sort.Ints(ids)
	var branches []string
	for b := range m.Branches {
		branches = append(branches, b)
	}
	sort.Strings(branches)
	for pass := 0; pass < 2 && len(viol) == 0; pass++ {
		bubble(t, func() {
			vsched.SetCurrent(-2)
			l, err := lk.Open(ctx, lk.NewEngine(n.store.Clone(), "warm", nil))
			if err != nil {
				fail("warm-handle-open-failed: "+symClass(errClass(err)), nil)
				return
			}
			readTips := func() {
				for _, b := range branches {
					l.Query(ctx, fmt.Sprintf("from %s@%s", hPool, b))
					res.Queries++
				}
			}
			order := append([]int(nil), ids...)
			if pass == 0 {
				readTips()
			} else {
				for i, j := 0, len(order)-1; i < j; i, j = i+1, j-1 {
					order[i], order[j] = order[j], order[i]
				}
			}
			for _, id := range order {
				c := m.Commits[id]
				skip := false
				objs, _ := m.snap(id)
				for o := range objs {
					if m.Vacuumed[o] {
						skip = true
					}
				}
				if skip {
					continue
				}
				got, err := l.Query(ctx, fmt.Sprintf("from %s@%s", hPool, c.Real))
				res.Queries++
				if err != nil {
					fail("commit-unreadable-on-a-warm-handle: "+symClass(errClass(err)), map[string]any{"commit": c.Real, "pass": pass})
					return
				}
				if want := m.values(id); !sameMultiset(got, want) {
					fail("commit-shows-other-data-on-a-warm-handle", map[string]any{"commit": c.Real, "pass": pass, "got": got, "want": want})
					return
				}
			}
			if pass == 1 {
				readTips()
			}
		})
	}
	return viol
}

func rep_short(s string) string {
	if len(s) > 140 {
		return s[:140]
	}
	return s
}

// nullPlacement: null and missing keys count as the largest key — last in an
// ascending pool, first in a descending one.
func nullPlacement(vals []zed.Value, keys order.SortKeys) string {
	key := keys.Primary()
	isNull := make([]bool, len(vals))
	for i, v := range vals {
		isNull[i] = v.DerefPath(key.Key).MissingAsNull().IsNull()
	}
	for i := 1; i < len(vals); i++ {
		if key.Order == order.Asc && isNull[i-1] && !isNull[i] {
			return "null/missing key before a non-null key in an ascending pool"
		}
		if key.Order == order.Desc && !isNull[i-1] && isNull[i] {
			return "null/missing key after a non-null key in a descending pool"
		}
	}
	return ""
}

// search is the breadth-first exploration with canonical-state deduplication.
func (cfg *hConfig) search(t *testing.T, maxDepth int, deadline time.Time) *hResult {
	ctx := context.Background()
	installIDs()
	res := &hResult{Config: cfg.Name, OpKinds: map[string]int{}, Complete: true}
	var root *hNode
	bubble(t, func() {
		vsched.SetCurrent(-1)
		idReader.Reset()
		st, err := buildSetup(ctx, vstore.Atomic, []lk.Op{{Kind: "createpool", Pool: hPool, Key: cfg.Key, Thresh: cfg.Thresh, Stride: cfg.Stride}}, true)
		if err != nil {
			t.Fatalf("setup: %v", err)
		}
		root = &hNode{store: st, model: newModel(cfg.Key)}
	})
	for _, op := range cfg.Prefix {
		nn, viol := cfg.step(t, ctx, root, op, res)
		res.Transitions++
		res.Violations = append(res.Violations, viol...)
		if nn == nil {
			if len(viol) == 0 {
				t.Fatalf("harness: prefix op %v of %s not applicable", op, cfg.Name)
			}
			res.Complete = false
			return res
		}
		root = nn
	}
	if rep.Thorough() {
		maxDepth += cfg.DepthAdj[1]
	} else {
		maxDepth += cfg.DepthAdj[0]
	}
	seen := map[string]bool{root.model.canon(): true}
	frontier := []*hNode{root}
	res.States = 1
	for depth := 1; depth <= maxDepth && len(frontier) > 0; depth++ {
		var next []*hNode
		for _, n := range frontier {
			for _, op := range cfg.Ops(n.model, cfg) {
				if time.Now().After(deadline) {
					res.Complete = false
					res.MaxDepth = depth
					return res
				}
				nn, viol := cfg.step(t, ctx, n, op, res)
				res.Transitions++
				res.Violations = append(res.Violations, viol...)
				if len(res.Violations) > 40 {
					res.Complete = false
					return res
				}
				if nn == nil {
					continue
				}
				key := nn.model.canon() + filesKey(nn)
				if seen[key] {
					continue
				}
				seen[key] = true
				res.States++
				if len(res.Samples) < 4 && depth == maxDepth {
					res.Samples = append(res.Samples, strings.Join(nn.hist, " ; "))
				}
				next = append(next, nn)
			}
		}
		frontier = next
		res.Depth = depth
		res.MaxDepth = depth
	}
	return res
}

// filesKey adds the implementation-only part of the state (which cached
// snapshot files exist) to the canonical key, by commit position.
func filesKey(n *hNode) string {
	var out []string
	realToModel := map[string]int{}
	for id, c := range n.model.Commits {
		realToModel[c.Real] = id
	}
	for _, p := range n.store.Paths() {
		if strings.HasSuffix(p, ".snap.zng") {
			base := p[strings.LastIndexByte(p, '/')+1:]
			base = strings.TrimSuffix(base, ".snap.zng")
			if id, ok := realToModel[base]; ok {
				out = append(out, fmt.Sprintf("snap%d", len(n.model.chain(id))))
			}
		}
	}
	sort.Strings(out)
	return "|" + strings.Join(out, ",")
}
