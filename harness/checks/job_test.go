package checks

import (
	"context"
	"fmt"
	"time"

	zed "github.com/brimdata/super"
	"github.com/brimdata/super/compiler"
	"github.com/brimdata/super/compiler/ast/dag"
	"github.com/brimdata/super/compiler/data"
	"github.com/brimdata/super/compiler/kernel"
	"github.com/brimdata/super/compiler/parser"
	"github.com/brimdata/super/pkg/storage"
	"github.com/brimdata/super/runtime"
	"github.com/brimdata/super/zbuf"
	"github.com/brimdata/super/zio"
	"github.com/brimdata/super/zson"

	"verif/lk"
)

// lakeJob compiles src against the lake; optimize/parallelism choose how much
// of the planner runs.  mutate, if set, may edit the DAG before it is built.
func lakeJob(ctx context.Context, l *lk.Lake, src string, optimize bool, parallelism int, mutate func(dag.Seq)) (*compiler.Job, *runtime.Context, error) {
	seq, _, err := parser.ParseSuperPipe(nil, src)
	if err != nil {
		return nil, nil, err
	}
	rctx := runtime.NewContext(ctx, zed.NewContext())
	job, err := compiler.NewJob(rctx, seq, data.NewSource(storage.NewRemoteEngine(), l.Root), nil)
	if err != nil {
		rctx.Cancel()
		return nil, nil, err
	}
	if optimize {
		if err := job.Optimize(); err != nil {
			rctx.Cancel()
			return nil, nil, err
		}
		if parallelism > 1 {
			if err := job.Parallelize(parallelism); err != nil {
				rctx.Cancel()
				return nil, nil, err
			}
		}
	}
	if mutate != nil {
		mutate(job.Entry())
	}
	return job, rctx, nil
}

func pullAll(p zbuf.Puller) ([]zed.Value, error) {
	var out []zed.Value
	for {
		batch, err := p.Pull(false)
		if err != nil {
			return out, err
		}
		if batch == nil {
			return out, nil
		}
		for _, v := range batch.Values() {
			out = append(out, v.Copy())
		}
		batch.Unref()
	}
}

// lakeQueryVals runs src on the lake with or without the optimizer, under a
// watchdog: a query still running after 20 s of real time is reported as hung
// (context cancelled, goroutines abandoned).
func lakeQueryVals(ctx context.Context, l *lk.Lake, src string, optimize bool, parallelism int) ([]zed.Value, error) {
	type result struct {
		vals []zed.Value
		err  error
	}
	ch := make(chan result, 1)
	cctx, cancel := context.WithCancel(ctx)
	defer cancel()
	go func() {
		v, err := lakeQueryVals1(cctx, l, src, optimize, parallelism)
		ch <- result{v, err}
	}()
	select {
	case r := <-ch:
		return r.vals, r.err
	case <-time.After(hangLimit(ctx)):
		cancel()
		if !hangConfirming(ctx) && !hangAlreadyConfirmed(src, optimize) {
			// Not believed yet: a loaded machine can be this slow.  Run it once more on
			// its own with six times the limit; only a second timeout is a hang.
			return lakeQueryVals(context.WithValue(ctx, hangKey{}, true), l, src, optimize, parallelism)
		}
		hangRemember(src, optimize)
		return nil, errHang
	}
}

func lakeQueryVals1(ctx context.Context, l *lk.Lake, src string, optimize bool, parallelism int) (vals []zed.Value, err error) {
	defer func() {
		if p := recover(); p != nil {
			err = fmt.Errorf("PANIC: %v", p)
		}
	}()
	job, rctx, err := lakeJob(ctx, l, src, optimize, parallelism, nil)
	if err != nil {
		return nil, err
	}
	defer rctx.Cancel()
	if err := job.Build(); err != nil {
		return nil, err
	}
	p := job.Puller()
	defer p.Pull(true)
	return pullAll(p)
}

func formatAll(vals []zed.Value) []string {
	out := make([]string, len(vals))
	for i, v := range vals {
		out[i] = zson.FormatValue(v)
	}
	return out
}

// evalDAGExpr evaluates a DAG expression on each input value with the real
// kernel (a DefaultScan | yield <expr> | output DAG).
func evalDAGExpr(ctx context.Context, e dag.Expr, r zio.Reader) ([]zed.Value, error) {
	rctx := runtime.NewContext(ctx, zed.NewContext())
	defer rctx.Cancel()
	seq := dag.Seq{
		&dag.DefaultScan{Kind: "DefaultScan"},
		&dag.Yield{Kind: "Yield", Exprs: []dag.Expr{e}},
		&dag.Output{Kind: "Output", Name: "main"},
	}
	outs, err := kernel.NewBuilder(rctx, nil).Build(seq, r)
	if err != nil {
		return nil, err
	}
	p, ok := outs["main"]
	if !ok {
		return nil, fmt.Errorf("no main output")
	}
	defer p.Pull(true)
	return pullAll(p)
}

// keyPrunerOf returns the pruner expression the optimizer attaches to the
// pool scan of an optimized job (nil if none).
func keyPrunerOf(seq dag.Seq) dag.Expr {
	var found dag.Expr
	var walk func(seq dag.Seq)
	walk = func(seq dag.Seq) {
		for _, op := range seq {
			switch op := op.(type) {
			case *dag.Lister:
				if op.KeyPruner != nil {
					found = op.KeyPruner
				}
			case *dag.SeqScan:
				if op.KeyPruner != nil && found == nil {
					found = op.KeyPruner
				}
			case *dag.Scatter:
				for _, p := range op.Paths {
					walk(p)
				}
			case *dag.Fork:
				for _, p := range op.Paths {
					walk(p)
				}
			}
		}
	}
	walk(seq)
	return found
}
