package checks

import (
	"bytes"
	"context"
	"encoding/binary"
	"fmt"
	"os"
	"path/filepath"
	"regexp"
	"runtime"
	"sort"
	"strings"
	"sync"
	"testing"
	"time"

	zed "github.com/brimdata/super"
	"github.com/brimdata/super/compiler"
	"github.com/brimdata/super/compiler/data"
	"github.com/brimdata/super/compiler/semantic"
	"github.com/brimdata/super/zio"
	"github.com/brimdata/super/zio/anyio"
	"github.com/brimdata/super/zio/zngio"
	"github.com/brimdata/super/ztest"

	"verif/gen"
	"verif/rep"
)

// ---- C11: untrusted bytes and query text never crash or hang the process -------------

var c11Alphabet = []byte{0x00, 0x01, 0x0f, 0x10, 0x1f, 0x20, 0x40, 0x7f, 0x80, 0xff}

var c11Formats = []string{"zng", "vng", "zson", "zjson", "json", "csv", "tsv", "zeek", "line", "auto"}

type c11Job struct {
	name   string
	kind   string // "short-bytes", "mutations", "query-text"
	format string // seed format (mutations), "" otherwise
	seed   []byte
	from   int // short-bytes: range of first byte
	to     int
	texts  []string // query-text
}

// c11Read feeds b to the reader for format with the given options; it must end
// with values or an error.  Returns a symptom ("" = fine).
func c11Read(b []byte, format string, threads int, validate bool) (symptom string) {
	done := make(chan string, 1)
	go func() {
		defer func() {
			if p := recover(); p != nil {
				done <- "panic: " + c11Class(errClass(fmt.Errorf("%v", p))) + " @" + panicSite()
			}
		}()
		var before runtime.MemStats
		runtime.ReadMemStats(&before)
		zctx := zed.NewContext()
		r, err := anyio.NewReaderWithOpts(zctx, bytes.NewReader(b), nil, anyio.ReaderOpts{Format: format, ZNG: zngio.ReaderOpts{Threads: threads, Validate: validate, Max: 64 * 1024, Size: 4096}})
		if err != nil {
			done <- ""
			return
		}
		n := 0
		for {
			v, err := r.Read()
			if err != nil || v == nil {
				break
			}
			if validate && (format == "zng" || format == "vng") {
				if verr := v.Validate(); verr != nil {
					r.Close()
					done <- "validated-reader-delivers-malformed-value: " + errClass(verr)
					return
				}
				// the same question asked of the harness's own walker (Validate is part of
				// the code under test)
				if cerr := gen.Consistent(v.Type(), v.Bytes()); cerr != nil {
					r.Close()
					done <- "validated-reader-delivers-value-inconsistent-with-its-type: " + c11Class(errClass(cerr))
					return
				}
			}
			n++
			if n > 100000 {
				break // run-length encoded columns legitimately expand; stop reading, nothing to report
			}
		}
		r.Close()
		var after runtime.MemStats
		runtime.ReadMemStats(&after)
		if grown := int64(after.TotalAlloc) - int64(before.TotalAlloc); grown > 64<<20 {
			done <- fmt.Sprintf("allocates-more-than-64MiB-for-a-%d-byte-input-with-readmax-64KiB", len(b))
			return
		}
		done <- ""
	}()
	select {
	case s := <-done:
		return s
	case <-time.After(30 * time.Second):
		return "hang: reader did not finish within 30s"
	}
}

var c11Once sync.Once
var c11JobList []c11Job

func c11Seeds() map[string][][]byte {
	zctx := zed.NewContext()
	u := gen.Core(zctx)
	var seqs [][]zed.Value
	for i, v := range u {
		if strings.HasPrefix(v.Name, "builder:missing") || strings.HasPrefix(v.Name, "builder:quiet") {
			continue
		}
		// (top-level error and enum values are always seeds: their bodies are checked by
		// validation through other paths than records, arrays, sets, maps and unions)
		k := v.Val.Type().Kind()
		if !rep.Thorough() && i%4 != 0 && k != zed.ErrorKind && k != zed.EnumKind {
			continue
		}
		seqs = append(seqs, []zed.Value{v.Val})
	}
	small := gen.Small(zctx)
	var mixed []zed.Value
	for _, v := range small {
		mixed = append(mixed, v.Val)
	}
	seqs = append(seqs, mixed, mixed[:3], append(append([]zed.Value(nil), mixed[3:6]...), mixed[3:6]...))
	out := map[string][][]byte{}
	for _, format := range []string{"zng", "zng-uncompressed", "vng", "zson", "zjson", "json", "csv", "zeek"} {
		for _, vals := range seqs {
			var buf bytes.Buffer
			opts := anyio.WriterOpts{Format: strings.Split(format, "-")[0]}
			if format == "zng-uncompressed" {
				opts.ZNG = &zngio.WriterOpts{Compress: false, FrameThresh: 16}
			}
			w, err := anyio.NewWriter(zio.NopCloser(&buf), opts)
			if err != nil {
				continue
			}
			ok := true
			finished := make(chan struct{})
			go func() {
				defer close(finished)
				// (the JSON writer panics on NaN and infinities; such values simply have no JSON seed)
				defer func() {
					if recover() != nil {
						ok = false
					}
				}()
				for _, v := range vals {
					if err := w.Write(v); err != nil {
						ok = false
						break
					}
				}
				if w.Close() != nil {
					ok = false
				}
			}()
			select {
			case <-finished:
			case <-time.After(20 * time.Second):
				continue // a writer that does not finish yields no seed (writers are not C11's subject)
			}
			if !ok || buf.Len() == 0 || buf.Len() > 400 {
				continue
			}
			out[format] = append(out[format], append([]byte(nil), buf.Bytes()...))
		}
	}
	return out
}

func c11Jobs() []c11Job {
	c11Once.Do(func() {
		var jobs []c11Job
		// (i) all byte strings of length <= 2, in slices of 16 first bytes
		for from := 0; from < 256; from += 16 {
			jobs = append(jobs, c11Job{name: fmt.Sprintf("all byte strings of length<=2 with first byte %02x..%02x", from, from+15), kind: "short-bytes", from: from, to: from + 16})
		}
		jobs = append(jobs, c11Job{name: "all strings of length 3-4 over the boundary alphabet", kind: "short-alpha"})
		// (i') ZNG frame headers with boundary length fields, in slices of 16 frame codes
		for from := 0; from < 256; from += 16 {
			jobs = append(jobs, c11Job{name: fmt.Sprintf("zng frame headers with boundary length fields, frame code %02x..%02x", from, from+15), kind: "zng-headers", from: from, to: from + 16})
		}
		// (ii) mutation neighbourhoods of valid encodings
		seeds := c11Seeds()
		var formats []string
		for f := range seeds {
			formats = append(formats, f)
		}
		sort.Strings(formats)
		for _, f := range formats {
			for i, s := range seeds[f] {
				jobs = append(jobs, c11Job{name: fmt.Sprintf("mutations of %s seed #%d (%d bytes)", f, i, len(s)), kind: "mutations", format: strings.Split(f, "-")[0], seed: s})
			}
		}
		// (iii) query text neighbourhoods
		var texts []string
		if b, err := os.ReadFile("/repo/compiler/parser/valid.zed"); err == nil {
			for _, l := range strings.Split(string(b), "\n") {
				if strings.TrimSpace(l) != "" {
					texts = append(texts, l)
				}
			}
		}
		var ztexts []string
		filepath.WalkDir("/repo", func(path string, d os.DirEntry, err error) error {
			if err != nil || d.IsDir() || !strings.HasSuffix(path, ".yaml") || !strings.Contains(path, "ztests") {
				return nil
			}
			if zt, err := ztest.FromYAMLFile(path); err == nil && zt.Zed != "" && len(zt.Zed) < 200 {
				ztexts = append(ztexts, zt.Zed)
			}
			return nil
		})
		sort.Strings(ztexts)
		for i, z := range ztexts {
			if rep.Thorough() || i%5 == 0 {
				texts = append(texts, z)
			}
		}
		for i := 0; i < len(texts); i += 20 {
			jobs = append(jobs, c11Job{name: fmt.Sprintf("query text mutations, programs %d..%d", i, min(i+20, len(texts))-1), kind: "query-text", texts: texts[i:min(i+20, len(texts))]})
		}
		c11JobList = jobs
	})
	return c11JobList
}

func init() {
	isoFamilies["c11"] = &isoFamily{
		N:         func() int { return len(c11Jobs()) },
		Name:      func(i int) string { return c11Jobs()[i].name },
		Class:     func(i int) string { j := c11Jobs()[i]; return j.kind + " " + j.format },
		Run:       func(i int, c *isoCtx) { c11Run(c11Jobs()[i], c) },
		Traceable: true,
	}
}

func c11Try(c *isoCtx, step *int, b []byte, formats []string, what string) {
	for _, f := range formats {
		for _, cfg := range []struct {
			threads  int
			validate bool
		}{{1, true}, {2, false}} {
			if f != "zng" && f != "auto" && cfg.threads == 2 {
				continue
			}
			*step++
			c.Step(*step, func() string {
				return fmt.Sprintf("%s: reader=%s threads=%d validate=%v bytes=% x", what, f, cfg.threads, cfg.validate, b)
			})
			c.Count("inputs_read", 1)
			if s := c11Read(b, f, cfg.threads, cfg.validate); s != "" {
				c.Violation(fmt.Sprintf("reader=%s symptom=%s", f, c11ClassKeepSite(s)), map[string]any{"what": what, "symptom": s, "reader": f, "threads": cfg.threads, "validate": cfg.validate, "bytes_hex": fmt.Sprintf("% x", b), "text": rep.Short(string(b), 200)})
			}
		}
	}
}

var (
	c11QuotedRe = regexp.MustCompile(`"[^"]*"`)
	c11TypeRe   = regexp.MustCompile(`value of type \S+ is not assignable to type`)
	c11NumRe    = regexp.MustCompile(`-?[0-9]+`)
)

// c11Class reduces a symptom to its class: quoted names, concrete Go types and
// numbers in panic messages vary with the mutated byte, the failing site does not.
func c11Class(s string) string {
	if i := strings.Index(s, "\ngoroutine"); i >= 0 {
		s = s[:i]
	}
	s = c11QuotedRe.ReplaceAllString(s, `"…"`)
	s = c11TypeRe.ReplaceAllString(s, "value of type # is not assignable to type")
	s = c11NumRe.ReplaceAllString(s, "#")
	return s
}

// panicSite names the innermost function of the code under test on the stack
// of a panic being recovered (the failing call site; no line numbers).
func panicSite() string {
	pcs := make([]uintptr, 64)
	n := runtime.Callers(2, pcs)
	frames := runtime.CallersFrames(pcs[:n])
	for {
		f, more := frames.Next()
		if strings.HasPrefix(f.Function, "github.com/brimdata/super") {
			return strings.TrimPrefix(strings.TrimPrefix(f.Function, "github.com/brimdata/super"), "/")
		}
		if !more {
			return "?"
		}
	}
}

// c11ClassKeepSite reduces a symptom to its class.  A panic is identified by
// the function it happens in (the message varies with the mutated byte).
func c11ClassKeepSite(s string) string {
	if strings.HasPrefix(s, "panic: ") {
		if i := strings.LastIndex(s, " @"); i >= 0 {
			return "panic" + s[i:]
		}
		return s
	}
	return c11Class(s)
}

func c11Run(j c11Job, c *isoCtx) {
	c.Eval(j.name)
	step := 0
	switch j.kind {
	case "short-bytes":
		for a := j.from; a < j.to; a++ {
			c11Try(c, &step, []byte{byte(a)}, c11Formats, "1-byte input")
			for b := 0; b < 256; b++ {
				c11Try(c, &step, []byte{byte(a), byte(b)}, c11Formats, "2-byte input")
			}
		}
		if j.from == 0 {
			c11Try(c, &step, nil, c11Formats, "empty input")
		}
	case "short-alpha":
		n := len(c11Alphabet)
		for a := 0; a < n; a++ {
			for b := 0; b < n; b++ {
				for d := 0; d < n; d++ {
					c11Try(c, &step, []byte{c11Alphabet[a], c11Alphabet[b], c11Alphabet[d]}, c11Formats, "3-byte input")
					if rep.Thorough() || (a+b+d)%3 == 0 {
						for e := 0; e < n; e++ {
							c11Try(c, &step, []byte{c11Alphabet[a], c11Alphabet[b], c11Alphabet[d], c11Alphabet[e]}, []string{"zng", "vng", "auto"}, "4-byte input")
						}
					}
				}
			}
		}
	case "zng-headers":
		// frame code byte, length uvarint, then nothing / zeros / a compression header
		// (format byte, uncompressed-size uvarint) followed by a few bytes
		lens := []uint64{0, 1, 15, 16, 127, 128, 1 << 14, 1 << 20, 1 << 28, 1<<31 - 1, 1 << 31, 1 << 32, 1 << 40, 1<<59 - 1, 1 << 59, 1<<63 - 1, 1 << 63, 1<<64 - 1}
		for code := j.from; code < j.to; code++ {
			for _, l := range lens {
				head := binary.AppendUvarint([]byte{byte(code)}, l)
				c11Try(c, &step, head, []string{"zng", "auto"}, fmt.Sprintf("frame code %02x length %d", code, l))
				c11Try(c, &step, append(append([]byte(nil), head...), make([]byte, 16)...), []string{"zng"}, fmt.Sprintf("frame code %02x length %d + 16 zero bytes", code, l))
				if code&0x40 == 0 && !rep.Thorough() {
					continue
				}
				for _, format := range []byte{0, 1, 0xff} {
					for _, size := range lens {
						b := append(append([]byte(nil), head...), format)
						b = binary.AppendUvarint(b, size)
						b = append(b, 0x10, 'a', 0, 0)
						c11Try(c, &step, b, []string{"zng"}, fmt.Sprintf("frame code %02x length %d compression format %d declared size %d", code, l, format, size))
					}
				}
			}
		}
	case "mutations":
		formats := []string{j.format, "auto"}
		seed := j.seed
		c11Try(c, &step, seed, formats, "unmodified seed")
		for cut := 0; cut < len(seed); cut++ {
			c11Try(c, &step, seed[:cut], formats, fmt.Sprintf("truncated at %d", cut))
		}
		for pos := 0; pos < len(seed); pos++ {
			for bit := 0; bit < 8; bit++ {
				m := append([]byte(nil), seed...)
				m[pos] ^= 1 << bit
				c11Try(c, &step, m, formats, fmt.Sprintf("bit %d of byte %d flipped", bit, pos))
			}
			for _, sub := range c11Alphabet {
				if sub == seed[pos] {
					continue
				}
				m := append([]byte(nil), seed...)
				m[pos] = sub
				c11Try(c, &step, m, formats, fmt.Sprintf("byte %d replaced by %02x", pos, sub))
			}
		}
		if rep.Thorough() && len(seed) <= 48 {
			// every pair of single-byte substitutions within the first 12 bytes (headers, typedefs)
			lim := min(12, len(seed))
			for p1 := 0; p1 < lim; p1++ {
				for p2 := p1 + 1; p2 < lim; p2++ {
					for _, s1 := range c11Alphabet {
						for _, s2 := range c11Alphabet {
							m := append([]byte(nil), seed...)
							m[p1], m[p2] = s1, s2
							c11Try(c, &step, m, []string{j.format}, fmt.Sprintf("bytes %d,%d replaced by %02x,%02x", p1, p2, s1, s2))
						}
					}
				}
			}
		}
	case "query-text":
		for _, text := range j.texts {
			toks := strings.Fields(text)
			var variants []string
			variants = append(variants, text)
			for i := range toks {
				del := append(append([]string(nil), toks[:i]...), toks[i+1:]...)
				dup := append(append(append([]string(nil), toks[:i+1]...), toks[i]), toks[i+1:]...)
				variants = append(variants, strings.Join(del, " "), strings.Join(dup, " "))
				if i+1 < len(toks) {
					sw := append([]string(nil), toks...)
					sw[i], sw[i+1] = sw[i+1], sw[i]
					variants = append(variants, strings.Join(sw, " "))
				}
			}
			for i := 0; i <= len(text) && i < 120; i++ {
				variants = append(variants, text[:i]) // truncation at every offset
			}
			for _, v := range variants {
				step++
				c.Step(step, func() string { return "query text: " + v })
				c.Count("query_texts_compiled", 1)
				if s := c11Compile(v); s != "" {
					c.Violation("compiler symptom="+c11ClassKeepSite(s), map[string]any{"query": v, "derived_from": text, "symptom": s})
				}
			}
		}
	}
}

func c11Compile(text string) (symptom string) {
	done := make(chan string, 1)
	go func() {
		defer func() {
			if p := recover(); p != nil {
				done <- "panic: " + c11Class(errClass(fmt.Errorf("%v", p))) + " @" + panicSite()
			}
		}()
		seq, _, err := compiler.Parse(text)
		if err == nil {
			semantic.AnalyzeAddSource(context.Background(), seq, data.NewSource(nil, nil), nil)
		}
		done <- ""
	}()
	select {
	case s := <-done:
		return s
	case <-time.After(30 * time.Second):
		return "hang: compile did not finish within 30s"
	}
}

func TestC11(t *testing.T) {
	run := rep.Start("C11", "exploration")
	defer run.Finish(t)
	jobs := c11Jobs()
	n, crashes := runIsolated(t, run, "c11")
	run.Set("jobs", n)
	run.Set("process_crashes", crashes)
	if v, ok := run.Cov["inputs_read"].(int64); ok {
		run.Set("evaluations", v+func() int64 { q, _ := run.Cov["query_texts_compiled"].(int64); return q }())
	}
	run.Sample(map[string]any{"jobs": len(jobs), "example": jobs[len(jobs)/2].name, "readers": c11Formats})
	run.Set("exhaustive", true)
	run.Set("rule", "(i) every byte string of length <= 2 and every string of length 3 (and a third of those of length 4; all in thorough) over the boundary alphabet {00,01,0f,10,1f,20,40,7f,80,ff}, to every reader (zng, vng, zson, zjson, json, csv, tsv, zeek, line) and to auto-detection; (i') ZNG frame headers: every frame code byte x 18 boundary values of the length field (0 .. 2^64-1) alone, followed by zeros, and (compressed frame codes; all codes in thorough) followed by a compression header with format {0,1,ff} x the same 18 declared uncompressed sizes; (ii) for each seed (a quarter of the boundary universe's values, all in thorough, and three multi-value sequences, encoded as ZNG compressed and uncompressed, VNG, ZSON, ZJSON, JSON, CSV, Zeek): truncation at every offset, every single-bit flip, every single-byte substitution from the alphabet (thorough: every pair of substitutions in the first 12 bytes), to the format's reader and to auto-detection, with threads 1 + validate and threads 2; (iii) query text: every token deletion, duplication, adjacent swap and every truncation of compiler/parser/valid.zed lines and ztest programs through compiler.Parse + semantic analysis. Oracle: no panic (a panic in a reader goroutine kills the child process and is attributed to the input by a trace re-run), the read loop ends within 30 s, at most 100000 values and 64 MiB allocated per input (inputs are at most 400 bytes and readmax is 64 KiB), and with validation on every delivered value passes Value.Validate and the harness's own structural walk (gen.Consistent: record items = fields, map pairs, union tags and enum selectors in range, also under error and named types). distinct = jobs")
	run.Assume("coverage-guided mutation is a sampling technique and is not used; neighbourhoods are distance 1 (2 in thorough) from valid encodings")
	run.Assume("goroutine leaks are not measured here")
}
