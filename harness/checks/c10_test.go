package checks

import (
	"context"
	"fmt"
	"sort"
	"strings"
	"sync"
	"testing"

	zed "github.com/brimdata/super"
	"github.com/brimdata/super/compiler"
	"github.com/brimdata/super/order"
	"github.com/brimdata/super/pkg/field"
	"github.com/brimdata/super/runtime"
	"github.com/brimdata/super/runtime/sam/expr"
	"github.com/brimdata/super/runtime/sam/op/groupby"
	"github.com/brimdata/super/zio/zsonio"
	"github.com/brimdata/super/zson"

	"verif/lk"
	"verif/rep"
)

// ---- C10: aggregation and join agree with naive evaluation ------------------------

var c10Rows = []string{
	`{k:1,v:1}`, `{k:1.,v:2}`, `{k:1(uint8),v:3}`, `{k:"1",v:4}`, `{k:null(int64),v:5}`, `{v:6}`, `{k:2,v:null(int64)}`, `{k:1,v:7}`,
	// rows 8..11: values of other types under one key, and two more keys (used by the
	// mixed-type sequences only)
	`{k:1,v:"foo"}`, `{k:1,v:1.5}`, `{k:3,v:8}`, `{k:4,v:9}`,
}

const c10BaseRows = 8

var c10Keys = []struct{ name, by, keyExpr string }{
	{"k", "by k", "{k:k}"},
	{"k,parity", "by k, p:=v%2", "{k:k,p:v%2}"},
	{"typeof", "by t:=typeof(k)", "{t:typeof(k)}"},
}

var c10Aggs = []string{
	"count()", "sum(v)", "min(v), max(v)", "avg(v)", "collect(v)", "union(v)", "dcount(v)", "and(v>1), or(v>3)", "c:=count() where v>2, s:=sum(v) where v<5", "fuse(this)",
}

// c10Features names what in the input the known spill defects depend on.
func c10Features(seq []int) string {
	has := map[int]bool{}
	for _, a := range seq {
		has[a] = true
	}
	numeric := 0
	for _, a := range []int{0, 1, 2} {
		if has[a] || (a == 0 && has[7]) {
			numeric++
		}
	}
	var f []string
	if numeric >= 2 {
		f = append(f, "numerically-equal-keys-of-different-types")
	}
	if has[4] && has[5] {
		f = append(f, "null-and-missing-keys")
	}
	if len(f) == 0 {
		return "plain"
	}
	return strings.Join(f, "+")
}

// runSorted runs query over text with the input declared sorted on k.
func runQueryDeclared(ctx context.Context, text, query string, sortKey *order.SortKey) ([]string, error) {
	if sortKey == nil {
		return runQueryOnText(ctx, text, query)
	}
	zctx := zed.NewContext()
	seq, _, err := compiler.Parse(query)
	if err != nil {
		return nil, err
	}
	rctx := runtime.NewContext(ctx, zctx)
	defer rctx.Cancel()
	q, err := compiler.CompileWithSortKey(rctx, seq, zsonio.NewReader(zctx, strings.NewReader(text)), *sortKey)
	if err != nil {
		return nil, err
	}
	defer q.Pull(true)
	return lk.Drain(q)
}

func TestC10(t *testing.T) {
	run := rep.Start("C10", "exploration")
	defer run.Finish(t)
	ctx := context.Background()
	var mu sync.Mutex
	report := func(sig string, d map[string]any) {
		mu.Lock()
		run.Violation(sig, d)
		mu.Unlock()
	}
	maxLen := 3
	if rep.Thorough() {
		maxLen = 4
	}
	var seqs [][]int
	var rec func(prefix []int)
	rec = func(prefix []int) {
		if len(prefix) > 0 {
			seqs = append(seqs, append([]int(nil), prefix...))
		}
		if len(prefix) == maxLen {
			return
		}
		for a := range c10Rows[:c10BaseRows] {
			rec(append(prefix, a))
		}
	}
	rec(nil)
	// mixed-type sequences: the aggregated field holds values of three types under one key,
	// with enough other keys to make a small key table spill after a multi-type partial exists
	nBase := len(seqs)
	var recm func(prefix []int)
	recm = func(prefix []int) {
		if len(prefix) >= 3 {
			seqs = append(seqs, append([]int(nil), prefix...))
		}
		if len(prefix) == 5 {
			return
		}
		for _, a := range []int{0, 8, 9, 10, 11} {
			recm(append(prefix, a))
		}
	}
	recm(nil)
	zctx := zed.NewContext()
	rowVals := make([]zed.Value, len(c10Rows))
	for i, s := range c10Rows {
		v, err := zson.ParseValue(zctx, s)
		if err != nil {
			t.Fatal(err)
		}
		rowVals[i] = v.Copy()
	}
	keyCmp := expr.NewComparator(true, expr.NewSortEvaluator(expr.NewDottedExpr(zctx, field.Path{"k"}), order.Asc)).WithMissingAsNull()
	saved := groupby.DefaultLimit
	defer func() { groupby.DefaultLimit = saved }()
	var gbCases int64
	limits := []int{saved, 2, 1}
	for _, limit := range limits {
		groupby.DefaultLimit = limit
		lname := map[int]string{saved: "default", 2: "2", 1: "1"}[limit]
		for _, key := range c10Keys {
			for _, aggs := range c10Aggs {
				key, aggs := key, aggs
				query := "summarize " + aggs + " " + key.by
				parallel(len(seqs), func(si int) {
					seq := seqs[si]
					if limit != saved && len(seq) < 2 {
						return
					}
					mixed := si >= nBase
					if mixed && !(key.name == "k" && (strings.HasPrefix(aggs, "union(") || strings.HasPrefix(aggs, "collect(") || aggs == "count()")) {
						return
					}
					if !mixed && limit == 2 && !rep.Thorough() {
						return // quick: the key-table limit 2 is used for the mixed-type sequences only
					}
					for _, decl := range []string{"unsorted", "asc", "desc"} {
						if decl != "unsorted" && (key.name != "k" || limit == 2) {
							continue // sorted-input mode applies to grouping by the sort key
						}
						order_ := append([]int(nil), seq...)
						var sk *order.SortKey
						if decl != "unsorted" {
							// the input really is sorted as declared (stable, lake order: nulls max)
							sort.SliceStable(order_, func(a, b int) bool {
								c := keyCmp.Compare(rowVals[order_[a]], rowVals[order_[b]])
								if decl == "desc" {
									return c > 0
								}
								return c < 0
							})
							o := order.Asc
							if decl == "desc" {
								o = order.Desc
							}
							k := order.NewSortKey(o, field.Path{"k"})
							sk = &k
						}
						var lines []string
						for _, a := range order_ {
							lines = append(lines, c10Rows[a])
						}
						text := strings.Join(lines, "\n")
						mu.Lock()
						gbCases++
						run.Eval(fmt.Sprintf("groupby/%s/%s/%v", key.name, aggs, seq))
						mu.Unlock()
						got, err := runQueryDeclared(ctx, text, query, sk)
						spill := "no"
						if limit != saved {
							spill = "yes"
						}
						cfg := fmt.Sprintf("spilling=%s keys-in-input=%s", spill, c10Features(seq))
						_ = lname
						if err != nil {
							report("groupby symptom=error "+cfg+": "+errClass(err), map[string]any{"input": lines, "query": query, "limit": lname, "declared": decl})
							continue
						}
						// naive evaluation: partition by (type,value) of the key tuple, aggregate each partition alone
						keys, err := runQueryOnText(ctx, text, "yield "+key.keyExpr)
						if err != nil || len(keys) != len(lines) {
							t.Errorf("harness: key evaluation: %v", err)
							return
						}
						parts := map[string][]string{}
						var orderKeys []string
						for i, k := range keys {
							if _, ok := parts[k]; !ok {
								orderKeys = append(orderKeys, k)
							}
							parts[k] = append(parts[k], lines[i])
						}
						var want []string
						failed := false
						for _, k := range orderKeys {
							rows, err := runQueryOnText(ctx, strings.Join(parts[k], "\n"), query)
							if err != nil {
								failed = true
								break
							}
							want = append(want, rows...)
						}
						if failed {
							continue
						}
						if len(got) != len(orderKeys) {
							report("groupby symptom=row-count-differs-from-distinct-key-count "+cfg, map[string]any{"input": lines, "query": query, "got": got, "distinct_keys": orderKeys, "limit": lname, "declared": decl})
							continue
						}
						if !sameMultiset(got, want) {
							report("groupby symptom=rows-differ-from-per-key-evaluation "+cfg, map[string]any{"input": lines, "query": query, "got": got, "want": want, "limit": lname, "declared": decl})
						}
					}
				})
			}
		}
	}
	groupby.DefaultLimit = saved
	run.Set("groupby_cases", gbCases)
	run.Sample(map[string]any{"part": "group-by", "rows": c10Rows, "input_sequences": len(seqs), "key_specs": len(c10Keys), "aggregate_sets": c10Aggs})
	// ---- joins --------------------------------------------------------------------
	joinCases := c10Joins(t, ctx, run, report)
	run.Set("join_cases", joinCases)
	run.Set("exhaustive", true)
	run.Set("rule", fmt.Sprintf("group-by: every input sequence up to length %d over an 8-row alphabet (numerically equal keys of types int64/float64/uint8/string, null key, missing key, null value; plus, for union/collect/count by k, every sequence of length 3..5 over rows whose aggregated field has three types under one key and two further keys, with key-table limits default, 2 and 1) x 3 key specs (plain, two keys one computed, computed typeof) x 10 aggregate sets (count,sum,min,max,avg,collect,union,dcount,and,or,where-clauses,fuse) x groupby.DefaultLimit in {default,2,1} x {unsorted, declared asc, declared desc with the input really sorted}; oracle: rows == union over distinct (type,value) key tuples of the same query run on that key's rows alone. join: kinds {inner,left,right,anti} x every pair of left/right row sequences up to length 2 (3) over 5-row alphabets with 0/1/2 matches per key and null keys, both input orders, unsorted and declared sorted; oracle: nested loop with key equality compare()==0", maxLen))
	run.Assume("partials-out/partials-in decomposition is exercised through parallel lake queries in C08, not here")
	run.Assume("rows with a missing join key are outside the claim (operator documentation and implementation disagree)")
}

// nested-loop reference for joins
func c10Joins(t *testing.T, ctx context.Context, run *rep.Run, report func(string, map[string]any)) int64 {
	left := []string{`{k:1,l:"a"}`, `{k:2,l:"b"}`, `{k:1,l:"c"}`, `{k:null(int64),l:"d"}`, `{k:3,l:"e"}`}
	right := []string{`{k:1,r:"A"}`, `{k:2,r:"B"}`, `{k:2,r:"C"}`, `{k:null(int64),r:"D"}`, `{k:4,r:"E"}`}
	maxLen := 2
	if rep.Thorough() {
		maxLen = 3
	}
	var lseqs [][]int
	var rec func(prefix []int, n int)
	rec = func(prefix []int, n int) {
		lseqs = append(lseqs, append([]int(nil), prefix...))
		if len(prefix) == maxLen {
			return
		}
		for a := 0; a < n; a++ {
			rec(append(prefix, a), n)
		}
	}
	rec(nil, len(left))

	var cases int64
	var mu sync.Mutex
	type job struct{ l, r []int }
	var jobs []job
	for _, l := range lseqs {
		for _, r := range lseqs {
			jobs = append(jobs, job{l, r})
		}
	}
	for _, kind := range []string{"inner", "left", "right", "anti"} {
		kind := kind
		parallel(len(jobs), func(ji int) {
			j := jobs[ji]
			cmp := expr.NewValueCompareFn(order.Asc, true) // per goroutine: it has scratch state
			zc := zed.NewContext()
			parse := func(s string) zed.Value {
				v, err := zson.ParseValue(zc, s)
				if err != nil {
					panic(fmt.Sprintf("harness: %s: %v", s, err))
				}
				return v.Copy()
			}
			var lrows, rrows []string
			for _, a := range j.l {
				lrows = append(lrows, left[a])
			}
			for _, a := range j.r {
				rrows = append(rrows, right[a])
			}
			q := kind + " join on k=k r"
			if kind == "right" {
				q = "right join on k=k l"
			}
			if kind == "anti" {
				q = "anti join on k=k"
			}
			mu.Lock()
			cases++
			run.Eval(fmt.Sprintf("join/%s/%v/%v", kind, j.l, j.r))
			mu.Unlock()
			// both sides in one input, separated by a fork on a marker field
			var in []string
			for _, l := range lrows {
				in = append(in, strings.TrimSuffix(l, "}")+",side:\"L\"}")
			}
			for _, r := range rrows {
				in = append(in, strings.TrimSuffix(r, "}")+",side:\"R\"}")
			}
			var got []string
			var err error
			sorts := [][2]string{{"", ""}, {" | sort k", " | sort k"}, {" | sort k desc", " | sort k desc"}, {" | sort -r k", " | sort k"}, {" | sort -nulls first k", " | sort -nulls first k"}}
			var firstGot []string
			for si, sp := range sorts {
				got, err = runQueryOnText(ctx, strings.Join(in, "\n"), "fork (=> side==\"L\" | drop side"+sp[0]+" => side==\"R\" | drop side"+sp[1]+") | "+q)
				if err != nil {
					report("join symptom=error kind="+kind+" upstream-sorts="+fmt.Sprint(sp)+": "+errClass(err), map[string]any{"left": lrows, "right": rrows})
					return
				}
				if si == 0 {
					firstGot = got
				} else if !sameMultiset(got, firstGot) {
					report(fmt.Sprintf("join symptom=result-depends-on-input-order kind=%s upstream-sorts=%q", kind, sp), map[string]any{"left": lrows, "right": rrows, "unsorted_inputs": firstGot, "sorted_inputs": got})
					return
				}
			}
			got = firstGot
			// nested loop
			var want []string
			keyOf := func(s string) zed.Value { v := parse(s); return v.DerefPath(field.Path{"k"}).MissingAsNull() }
			switch kind {
			case "inner", "left":
				for _, l := range lrows {
					matched := false
					for _, r := range rrows {
						if cmp(keyOf(l), keyOf(r)) == 0 {
							matched = true
							rv := parse(r)
							want = append(want, strings.TrimSuffix(l, "}")+",r:"+zson.FormatValue(*rv.Deref("r"))+"}")
						}
					}
					if !matched && kind == "left" {
						want = append(want, l)
					}
				}
			case "right":
				for _, r := range rrows {
					matched := false
					for _, l := range lrows {
						if cmp(keyOf(l), keyOf(r)) == 0 {
							matched = true
							lv := parse(l)
							want = append(want, strings.TrimSuffix(r, "}")+",l:"+zson.FormatValue(*lv.Deref("l"))+"}")
						}
					}
					if !matched {
						want = append(want, r)
					}
				}
			case "anti":
				for _, l := range lrows {
					matched := false
					for _, r := range rrows {
						if cmp(keyOf(l), keyOf(r)) == 0 {
							matched = true
						}
					}
					if !matched {
						want = append(want, l)
					}
				}
			}
			if !sameMultiset(got, want) {
				nullKeys := "no-null-keys"
				if strings.Contains(strings.Join(lrows, ""), "null") || strings.Contains(strings.Join(rrows, ""), "null") {
					nullKeys = "null-keys-present"
				}
				report(fmt.Sprintf("join symptom=differs-from-nested-loop kind=%s %s", kind, nullKeys), map[string]any{"left": lrows, "right": rrows, "got": got, "want": want, "query": q})
			}
		})
	}
	run.Sample(map[string]any{"part": "join", "left_rows": left, "right_rows": right, "sequence_pairs": len(jobs)})
	return cases
}
