package checks

import (
	"bytes"
	"context"
	"encoding/json"
	"errors"
	"fmt"
	"io"
	"net"
	"net/http"
	"os"
	"path/filepath"
	"regexp"
	"runtime"
	"runtime/pprof"
	"sort"
	"strings"
	"sync"
	"testing"
	"time"

	zed "github.com/brimdata/super"
	"github.com/brimdata/super/api"
	"github.com/brimdata/super/api/client"
	"github.com/brimdata/super/api/queryio"
	"github.com/brimdata/super/compiler/optimizer/demand"
	"github.com/brimdata/super/lake"
	lakeapi "github.com/brimdata/super/lake/api"
	"github.com/brimdata/super/lake/data"
	"github.com/brimdata/super/pkg/storage"
	"github.com/brimdata/super/service"
	"github.com/brimdata/super/zbuf"
	"github.com/brimdata/super/zio"
	"github.com/brimdata/super/zio/anyio"
	"github.com/brimdata/super/zio/zngio"
	"github.com/brimdata/super/zio/zsonio"
	"github.com/brimdata/super/zson"

	"verif/lk"
	"verif/rep"
)

// ---- C19: the lake service behaves exactly like direct access ---------------------------
//
// Two lakes on the real file system are driven in lock step: one through
// lakeapi.FromRoot (direct), one through lakeapi.NewRemoteLake over an httptest
// server running service.Core.  After every operation of every history the
// outcome (ok / error, query output in order) and the state of both lakes, read
// through independent direct handles, must agree.

type c19Pair struct {
	dir    string
	direct *lk.Lake // operations go through lakeapi.FromRoot
	remote *lk.Lake // operations go through the service; Root is an independent direct handle on the served lake
	served *lk.Lake // direct view of the served lake (state extraction only)
	conn   *client.Connection
	srv    *http.Server
	ln     net.Listener
}

func newC19Pair(ctx context.Context) (*c19Pair, error) {
	dir, err := os.MkdirTemp("", "verif-c19-")
	if err != nil {
		return nil, err
	}
	p := &c19Pair{dir: dir}
	eng := storage.NewLocalEngine()
	uriL := storage.MustParseURI(filepath.Join(dir, "direct"))
	rootL, err := lake.Create(ctx, eng, nil, uriL)
	if err != nil {
		p.Close()
		return nil, err
	}
	p.direct = &lk.Lake{Root: rootL, API: lakeapi.FromRoot(rootL), Store: eng}
	uriR := storage.MustParseURI(filepath.Join(dir, "served"))
	core, err := service.NewCore(ctx, service.Config{Root: uriR})
	if err != nil {
		p.Close()
		return nil, err
	}
	// (not httptest.Server: its Close calls http.DefaultTransport.CloseIdleConnections, which
	// breaks requests in flight on the pairs other workers are driving)
	ln, err := net.Listen("tcp", "127.0.0.1:0")
	if err != nil {
		p.Close()
		return nil, err
	}
	p.ln = ln
	p.srv = &http.Server{Handler: core}
	go p.srv.Serve(ln)
	p.conn = client.NewConnectionTo("http://" + ln.Addr().String())
	rootR, err := lake.Open(ctx, eng, nil, uriR)
	if err != nil {
		p.Close()
		return nil, err
	}
	p.remote = &lk.Lake{Root: rootR, API: lakeapi.NewRemoteLake(p.conn), Store: eng}
	p.served = &lk.Lake{Root: rootR, API: lakeapi.FromRoot(rootR), Store: eng}
	return p, nil
}

// fresh opens new direct handles on both lakes.
func (p *c19Pair) fresh(ctx context.Context) (*lk.Lake, *lk.Lake) {
	eng := storage.NewLocalEngine()
	open := func(sub string) *lk.Lake {
		root, err := lake.Open(ctx, eng, nil, storage.MustParseURI(filepath.Join(p.dir, sub)))
		if err != nil {
			return nil
		}
		return &lk.Lake{Root: root, API: lakeapi.FromRoot(root), Store: eng}
	}
	return open("direct"), open("served")
}

func (p *c19Pair) Close() {
	if p.srv != nil {
		p.srv.Close()
	}
	os.RemoveAll(p.dir)
}

// c19State renders everything C19 compares about a lake's state: pools,
// branches, branch contents in scan order (key sequence, and values as a multiset: the order among equal keys follows object ids, which differ between the two lakes), object summaries and commit-path
// lengths.  No ids appear in it.
func c19State(ctx context.Context, l *lk.Lake) string {
	var b strings.Builder
	c, err := l.Contents(ctx)
	if err != nil {
		return "state unreadable: " + errClass(err)
	}
	pools := make([]string, 0, len(c))
	for p := range c {
		pools = append(pools, p)
	}
	sort.Strings(pools)
	for _, pn := range pools {
		brs := make([]string, 0, len(c[pn]))
		for br := range c[pn] {
			brs = append(brs, br)
		}
		sort.Strings(brs)
		if cfg, err := lakeapi.LookupPoolByName(ctx, l.API, pn); err == nil {
			fmt.Fprintf(&b, "pool %s keys=%v thresh=%d stride=%d\n", pn, cfg.SortKeys, cfg.Threshold, cfg.SeekStride)
		}
		for _, br := range brs {
			// scan order: the sequence of keys, and the values as a multiset (the order of
			// values with equal keys follows object ids, which differ between two lakes)
			fmt.Fprintf(&b, "  %s@%s keys=%s values=[%s]\n", pn, br, c19KeySeq(c[pn][br]), strings.Join(sortedCopy(c[pn][br]), ","))
			objs, err := l.Objects(ctx, pn, br)
			if err != nil {
				fmt.Fprintf(&b, "    objects unreadable: %s\n", errClass(err))
				continue
			}
			var lines []string
			for _, o := range objs {
				lines = append(lines, fmt.Sprintf("    obj min=%s max=%s count=%d vec=%v\n", o.Min, o.Max, o.Count, o.Vec))
			}
			sort.Strings(lines)
			b.WriteString(strings.Join(lines, ""))
			path, err := l.CommitPath(ctx, pn, br)
			if err != nil {
				fmt.Fprintf(&b, "    commits unreadable: %s\n", errClass(err))
				continue
			}
			fmt.Fprintf(&b, "    commits=%d\n", len(path))
		}
	}
	return b.String()
}

var c19KeyRe = regexp.MustCompile(`^\{k:([^,}]*)`)

// c19KeySeq is the sequence of k values of formatted records ("-" where there is none).
func c19KeySeq(vals []string) string {
	var ks []string
	for _, v := range vals {
		if m := c19KeyRe.FindStringSubmatch(v); m != nil {
			ks = append(ks, m[1])
		} else {
			ks = append(ks, "-")
		}
	}
	return strings.Join(ks, " ")
}

// c19SameOutput compares two query outputs: same multiset and same key sequence.
func c19SameOutput(a, b string) bool {
	if a == b {
		return true
	}
	if !strings.HasPrefix(a, "Q:") || !strings.HasPrefix(b, "Q:") {
		return false
	}
	// values are joined with "," by lk.Apply; records of this check contain no nested commas at top level other than between fields, so split on "},{"
	trim := func(x string) string { return strings.TrimSuffix(strings.TrimPrefix(x[2:], "{"), "}") }
	as, bs := strings.Split(trim(a), "},{"), strings.Split(trim(b), "},{")
	if !sameMultiset(as, bs) {
		return false
	}
	key := func(vs []string) string {
		var ks []string
		for _, v := range vs {
			if strings.HasPrefix(v, "k:") {
				ks = append(ks, strings.SplitN(v[2:], ",", 2)[0])
			} else {
				ks = append(ks, "-")
			}
		}
		return strings.Join(ks, " ")
	}
	return key(as) == key(bs)
}

func c19Alphabet(full bool) []lk.Op {
	const d1 = `{k:1,v:"a"} {k:2,v:"b"}`
	const d2 = `{k:3,v:"c"}`
	const d3 = `{k:2,v:"z"} {k:5,v:"e"} {k:6,v:"f"}`
	ops := []lk.Op{
		{Kind: "createpool", Pool: "p", Key: "k:asc"},
		{Kind: "createpool", Pool: "q", Key: "k:desc", Thresh: 1, Stride: 1},
		{Kind: "renamepool", Pool: "p", Name: "r"},
		{Kind: "droppool", Pool: "p"},
		{Kind: "createbranch", Pool: "p", Branch: "main", Name: "b", At: -1},
		{Kind: "dropbranch", Pool: "p", Branch: "b"},
		{Kind: "load", Pool: "p", Branch: "main", Data: d1},
		{Kind: "load", Pool: "p", Branch: "main", Data: d3},
		{Kind: "load", Pool: "p", Branch: "b", Data: d2},
		{Kind: "load", Pool: "p", Branch: "main", Data: ``},
		{Kind: "delete", Pool: "p", Branch: "main", Idx: []int{0}},
		{Kind: "deletewhere", Pool: "p", Branch: "main", Name: "k==2"},
		{Kind: "compact", Pool: "p", Branch: "main", Idx: []int{0, 1}},
		{Kind: "merge", Pool: "p", Branch: "main", Name: "b"},
		{Kind: "revert", Pool: "p", Branch: "main", Idx: []int{0}},
		{Kind: "query", Name: "from p"},
		{Kind: "query", Name: "from p@b | count()"},
	}
	if full {
		ops = append(ops,
			lk.Op{Kind: "createpool", Pool: "p", Key: "k:desc"},
			lk.Op{Kind: "createpool", Pool: "s", Key: "k:asc,v:desc"},
			lk.Op{Kind: "createpool", Pool: "t", Key: ""},
			lk.Op{Kind: "load", Pool: "q", Branch: "main", Data: d3},
			lk.Op{Kind: "compact", Pool: "p", Branch: "main", Idx: []int{0, 1}, Vec: true},
			lk.Op{Kind: "addvec", Pool: "p", Branch: "main", Idx: []int{0}},
			lk.Op{Kind: "delvec", Pool: "p", Branch: "main", Idx: []int{0}},
			lk.Op{Kind: "vacuum", Pool: "p", Branch: "main"},
			lk.Op{Kind: "deletewhere", Pool: "p", Branch: "main", Name: "k>=("},
			lk.Op{Kind: "revert", Pool: "p", Branch: "main", Idx: []int{1}},
			lk.Op{Kind: "query", Name: "from nosuch"},
			lk.Op{Kind: "query", Name: "from p | sort -r k | head 2"},
			lk.Op{Kind: "query", Name: "from p | where ("},
			lk.Op{Kind: "query", Name: "from :pools | cut name | sort name"},
			lk.Op{Kind: "query", Name: "from p@main:objects | count()"},
			lk.Op{Kind: "query", Name: "from q | yield k"},
		)
	}
	return ops
}

// c19OpClass is the part of an operation kept in a finding's signature.
func c19OpClass(op lk.Op) string {
	s := op.Kind
	switch op.Kind {
	case "createpool":
		if strings.Contains(op.Key, ",") {
			s += "(multiple sort keys)"
		} else if op.Key == "" {
			s += "(no sort key)"
		}
	case "load":
		if strings.TrimSpace(op.Data) == "" {
			s += "(empty)"
		}
	case "query":
		s += "(" + op.Name + ")"
	}
	return s
}

// c19Ambiguous: op selects objects by canonical position and some selected object has a twin
// with the same key range, count and size.
func c19Ambiguous(ctx context.Context, l *lk.Lake, op lk.Op) bool {
	if len(op.Idx) == 0 || op.Kind == "revert" {
		return false
	}
	objs, err := l.Objects(ctx, op.Pool, op.Branch)
	if err != nil {
		return false
	}
	same := func(a, b lk.ObjInfo) bool {
		return a.Min == b.Min && a.Max == b.Max && a.Count == b.Count && a.Size == b.Size
	}
	for _, i := range op.Idx {
		if i >= len(objs) {
			continue
		}
		for j := range objs {
			if j != i && same(objs[i], objs[j]) {
				return true
			}
		}
	}
	return false
}

type c19Outcome struct {
	skip bool
	res  string
	err  error
}

func c19Apply(ctx context.Context, l *lk.Lake, op lk.Op) (o c19Outcome) {
	defer func() {
		if p := recover(); p != nil {
			o.err = fmt.Errorf("PANIC: %v", p)
		}
	}()
	res, err := l.Apply(ctx, op)
	if errors.Is(err, lk.ErrSkip) {
		return c19Outcome{skip: true}
	}
	if op.Kind != "query" {
		res = "" // commit ids differ between the two lakes by construction
	}
	return c19Outcome{res: res, err: err}
}

// c19RunHistory applies ops to a fresh pair, comparing after every step.
// It returns "" or (signature, detail).
func c19RunHistory(ctx context.Context, ops []lk.Op, stats *c19Stats) (string, map[string]any) {
	p, err := newC19Pair(ctx)
	if err != nil {
		return "harness: " + err.Error(), nil
	}
	defer p.Close()
	var trail []string
	for i, op := range ops {
		trail = append(trail, op.String())
		if c19Ambiguous(ctx, p.direct, op) {
			// the operation names objects by position and two candidate objects are
			// indistinguishable but for their ids (twin loads): which one it hits differs
			// between the lakes without either being wrong
			stats.add("operations_skipped_because_the_object_choice_is_ambiguous", 1)
			continue
		}
		d := c19Apply(ctx, p.direct, op)
		r := c19Apply(ctx, p.remote, op)
		stats.add("operations", 1)
		detail := func(extra map[string]any) map[string]any {
			m := map[string]any{"history": append([]string(nil), trail...), "step": i, "op": op.String(),
				"direct_result": d.res, "direct_error": fmt.Sprint(d.err), "remote_result": r.res, "remote_error": fmt.Sprint(r.err)}
			for k, v := range extra {
				m[k] = v
			}
			return m
		}
		if d.skip != r.skip {
			return "symptom=op-applicable-on-one-side-only op=" + c19OpClass(op), detail(nil)
		}
		if d.skip {
			continue
		}
		switch {
		case d.err != nil && r.err == nil:
			return "symptom=error-dropped-by-service op=" + c19OpClass(op) + " direct=" + c19Short(errClass(d.err)), detail(nil)
		case d.err == nil && r.err != nil:
			return "symptom=service-fails-where-direct-succeeds op=" + c19OpClass(op) + " remote=" + c19Short(errClass(r.err)), detail(nil)
		case d.err != nil && r.err != nil:
			stats.add("both_fail", 1)
			if !strings.Contains(rep.Normalize(r.err.Error()), rep.Normalize(d.err.Error())) {
				stats.add("both_fail_with_different_text", 1)
			}
			if strings.HasPrefix(r.err.Error(), "PANIC") || strings.HasPrefix(d.err.Error(), "PANIC") {
				return "symptom=panic op=" + c19OpClass(op), detail(nil)
			}
		}
		if !c19SameOutput(d.res, r.res) {
			return "symptom=query-output-differs op=" + c19OpClass(op), detail(nil)
		}
		sd, sr := c19DirRe.ReplaceAllString(c19State(ctx, p.direct), "<lake>"), c19DirRe.ReplaceAllString(c19State(ctx, p.served), "<lake>")
		for attempt := 0; sd != sr && attempt < 3; attempt++ {
			// Not believed yet: read both lakes again through freshly opened handles.  A
			// difference that goes away is a matter of one handle's view lagging (C13's
			// subject) and is counted, not reported here.
			time.Sleep(300 * time.Millisecond)
			if fd, fr := p.fresh(ctx); fd != nil && fr != nil {
				sd, sr = c19DirRe.ReplaceAllString(c19State(ctx, fd), "<lake>"), c19DirRe.ReplaceAllString(c19State(ctx, fr), "<lake>")
				if sd == sr {
					stats.add("state_differences_that_vanished_on_a_fresh_read", 1)
				}
			}
		}
		if sd != sr {
			return "symptom=state-differs-after op=" + c19OpClass(op), detail(map[string]any{"direct_state": sd, "served_state": sr})
		}
	}
	return "", nil
}

type c19Stats struct {
	mu sync.Mutex
	m  map[string]int64
}

func (s *c19Stats) add(k string, n int64) {
	s.mu.Lock()
	if s.m == nil {
		s.m = map[string]int64{}
	}
	s.m[k] += n
	s.mu.Unlock()
}

// ---- formats ----------------------------------------------------------------------------

var c19LoadInputs = map[string]string{
	"records":     `{k:1,v:"a"} {k:2,v:"b"} {k:3,v:null(string)}`,
	"mixed-types": `{k:1,v:"a"} {k:2.5,v:[1,2]} {k:"x",w:10.0.0.1}`,
	"one":         `{k:7}`,
}

var c19LoadFormats = []string{"zng", "zson", "zjson", "json", "ndjson", "csv", "tsv", "vng", "zeek", "line"}

func c19Encode(text, format string) ([]byte, error) {
	zctx := zed.NewContext()
	vals, err := readAll(zsonio.NewReader(zctx, strings.NewReader(text)))
	if err != nil {
		return nil, err
	}
	var buf bytes.Buffer
	w, err := anyio.NewWriter(zio.NopCloser(&buf), anyio.WriterOpts{Format: format})
	if err != nil {
		return nil, err
	}
	err = func() (err error) {
		defer func() {
			if p := recover(); p != nil {
				err = fmt.Errorf("writer panic: %v", p)
			}
		}()
		for _, v := range vals {
			if err := w.Write(v); err != nil {
				return err
			}
		}
		return w.Close()
	}()
	return buf.Bytes(), err
}

// failingReader yields left values and then fails.
type failingReader struct {
	zctx *zed.Context
	left int
	n    int
}

func (f *failingReader) Read() (*zed.Value, error) {
	if f.left == 0 {
		return nil, errors.New("source failed")
	}
	f.left--
	f.n++
	v, err := zson.ParseValue(f.zctx, fmt.Sprintf("{k:%d}", 10+f.n))
	return &v, err
}

type onlyReader struct{ r io.Reader }

func (o onlyReader) Read(b []byte) (int, error) { return o.r.Read(b) }

// c19LoadCase loads body with the given declared format ("" = auto-detect)
// through both paths into a fresh pool and compares outcome and state.
func c19LoadCase(ctx context.Context, body []byte, format string, gz bool) (string, map[string]any) {
	p, err := newC19Pair(ctx)
	if err != nil {
		return "harness: " + err.Error(), nil
	}
	defer p.Close()
	mk := lk.Op{Kind: "createpool", Pool: "p", Key: "k:asc"}
	if d, r := c19Apply(ctx, p.direct, mk), c19Apply(ctx, p.remote, mk); d.err != nil || r.err != nil {
		return fmt.Sprintf("harness: createpool: %v / %v", d.err, r.err), nil
	}
	idL, _ := p.direct.Root.PoolID(ctx, "p")
	idR, _ := p.remote.Root.PoolID(ctx, "p")
	// direct: what "super load -i <format>" does: anyio reader over the stream, Load.  A declared
	// vng body is spooled to a seekable file by the service; the direct path reads it from memory.
	directLoad := func() (err error) {
		defer func() {
			if pn := recover(); pn != nil {
				err = fmt.Errorf("PANIC: %v", pn)
			}
		}()
		zctx := zed.NewContext()
		f := format
		if f == "" {
			f = "auto"
		}
		var src io.Reader = onlyReader{bytes.NewReader(body)}
		if f == "vng" || f == "parquet" {
			src = bytes.NewReader(body)
		}
		zr, err := anyio.NewReaderWithOpts(zctx, src, demand.All(), anyio.ReaderOpts{Format: f, ZNG: zngio.ReaderOpts{Validate: true}})
		if err != nil {
			return err
		}
		defer zr.Close()
		_, err = p.direct.API.Load(ctx, zctx, idL, "main", zr, api.CommitMessage{Author: "verif", Body: "m"})
		return err
	}
	derr := directLoad()
	mediaType := ""
	if format != "" {
		mediaType, err = api.FormatToMediaType(format)
		if err != nil {
			return "harness: " + err.Error(), nil
		}
	}
	_, rerr := p.conn.Load(ctx, idR, "main", mediaType, bytes.NewReader(body), api.CommitMessage{Author: "verif", Body: "m"})
	detail := map[string]any{"declared_format": format, "body": rep.Short(string(body), 300), "direct_error": fmt.Sprint(derr), "remote_error": fmt.Sprint(rerr)}
	declared := format
	if declared == "" {
		declared = "auto"
	}
	switch {
	case derr != nil && rerr == nil:
		return "symptom=load-error-dropped-by-service declared=" + declared, detail
	case derr == nil && rerr != nil:
		return "symptom=service-load-fails-where-direct-succeeds declared=" + declared + " remote=" + c19Short(errClass(rerr)), detail
	}
	sd, sr := c19State(ctx, p.direct), c19State(ctx, p.served)
	if sd != sr {
		detail["direct_state"], detail["served_state"] = sd, sr
		return "symptom=state-differs-after-load declared=" + declared, detail
	}
	return "", nil
}

var c19ResponseFormats = []string{"zng", "zson", "zjson", "json", "ndjson", "csv", "tsv", "vng", "zeek", "arrows", "parquet", "line"}

// c19RawQuery posts a query with an Accept header and ctrl flag and returns
// status, body and what the query status endpoint reports for the request
// afterwards (the service's channel for errors after the OK header).
func c19RawQuery(ctx context.Context, p *c19Pair, src, format string, ctrl bool) (int, []byte, string, error) {
	mt, err := api.FormatToMediaType(format)
	if err != nil {
		return 0, nil, "", err
	}
	path := "/query?ctrl=F"
	if ctrl {
		path = "/query?ctrl=T"
	}
	req := p.conn.NewRequest(ctx, http.MethodPost, path, api.QueryRequest{Query: src})
	req.Header.Set("Accept", mt)
	res, err := p.conn.Do(req)
	if res == nil {
		return 0, nil, "", err
	}
	if err != nil {
		return res.StatusCode, nil, "", err
	}
	b, rerr := io.ReadAll(res.Body)
	res.Body.Close()
	var late string
	if id := res.Header.Get(api.RequestIDHeader); id != "" {
		sreq := p.conn.NewRequest(ctx, http.MethodGet, "/query/status/"+id, nil)
		sreq.Header.Set("Accept", api.MediaTypeJSON)
		if sres, err := p.conn.Do(sreq); err == nil {
			var qe api.QueryError
			sb, _ := io.ReadAll(sres.Body)
			sres.Body.Close()
			if json.Unmarshal(sb, &qe) == nil {
				late = qe.Error
			}
		}
	}
	return res.StatusCode, b, late, rerr
}

// c19LocalFormatted runs src directly and formats the output the way the
// service does (same writer, no control messages).
func c19LocalFormatted(ctx context.Context, l *lk.Lake, src, format string) (out []byte, runErr, fmtErr error) {
	defer func() {
		if p := recover(); p != nil {
			fmtErr = fmt.Errorf("PANIC in writer: %v", p)
		}
	}()
	q, err := l.API.Query(ctx, nil, src)
	if err != nil {
		return nil, err, nil
	}
	defer q.Pull(true)
	var buf bytes.Buffer
	w, err := queryio.NewWriter(zio.NopCloser(&buf), format, nil, false)
	if err != nil {
		return nil, nil, err
	}
	for {
		batch, err := q.Pull(false)
		if err != nil {
			w.Close()
			return buf.Bytes(), err, nil
		}
		if batch == nil {
			break
		}
		if len(batch.Values()) == 0 {
			continue
		}
		batch, label := zbuf.Unlabel(batch)
		if err := w.WriteBatch(label, batch); err != nil {
			w.Close()
			return buf.Bytes(), nil, err
		}
	}
	if err := w.Close(); err != nil {
		return buf.Bytes(), nil, err
	}
	return buf.Bytes(), nil, nil
}

// c19Values decodes a response body of the given format into formatted
// values; with control frames, the in-band error (if any) is returned.
func c19Values(ctx context.Context, body []byte, format string) ([]string, error) {
	if format == "zng" {
		sc, err := queryio.NewScanner(ctx, io.NopCloser(bytes.NewReader(body)))
		if err != nil {
			return nil, err
		}
		defer sc.Pull(true)
		return lk.Drain(sc)
	}
	zr, err := anyio.NewReaderWithOpts(zed.NewContext(), bytes.NewReader(body), demand.All(), anyio.ReaderOpts{Format: format})
	if err != nil {
		return nil, err
	}
	defer zr.Close()
	var out []string
	for {
		v, err := zr.Read()
		if err != nil || v == nil {
			return out, err
		}
		out = append(out, zson.FormatValue(*v))
	}
}

func c19Prelude() []lk.Op {
	return []lk.Op{
		{Kind: "createpool", Pool: "p", Key: "k:asc"},
		{Kind: "load", Pool: "p", Branch: "main", Data: `{k:1,v:"a"} {k:2,v:"b"}`},
		{Kind: "createbranch", Pool: "p", Branch: "main", Name: "b", At: -1},
		{Kind: "load", Pool: "p", Branch: "b", Data: `{k:3,v:"c"}`},
		{Kind: "load", Pool: "p", Branch: "main", Data: `{k:2,v:"z"} {k:5,v:"e"} {k:6,v:"f"}`},
	}
}

// c19Corrupt damages the last-scanned data object of p@main identically in
// both lakes so a scan fails after it has produced values.
func c19Corrupt(ctx context.Context, l *lk.Lake, how string) error {
	id, err := l.Root.PoolID(ctx, "p")
	if err != nil {
		return err
	}
	pool, err := l.Root.OpenPool(ctx, id)
	if err != nil {
		return err
	}
	objs, err := l.Objects(ctx, "p", "main")
	if err != nil || len(objs) == 0 {
		return fmt.Errorf("no objects: %v", err)
	}
	last := objs[len(objs)-1]
	path := data.SequenceURI(pool.DataPath, last.ID).Filepath()
	switch how {
	case "missing":
		return os.Remove(path)
	default:
		b, err := os.ReadFile(path)
		if err != nil {
			return err
		}
		return os.WriteFile(path, b[:len(b)/2], 0o644)
	}
}

func TestC19(t *testing.T) {
	run := rep.Start("C19", "model_checking")
	defer run.Finish(t)
	ctx := context.Background()
	stats := &c19Stats{}
	var mu sync.Mutex
	violation := func(sig string, detail map[string]any) {
		mu.Lock()
		defer mu.Unlock()
		if strings.HasPrefix(sig, "harness:") {
			t.Errorf("%s", sig)
			return
		}
		run.Violation(sig, detail)
	}

	// (1) histories: all sequences up to the depth from the empty lake and from the prelude state
	type hist struct {
		ops []lk.Op
	}
	var hs []hist
	depth0, depth1 := 3, 2
	small, full := c19Alphabet(false), c19Alphabet(true)
	alpha0, alpha1 := small, full
	if rep.Thorough() {
		depth0, depth1 = 3, 3
		alpha0 = full
	}
	if d := rep.EnvInt("VERIF_DEPTH"); d > 0 {
		depth0 = d
	}
	deadline := rep.Deadline(10*time.Minute, 45*time.Minute)
	expired := func() bool { return time.Now().After(deadline) }
	var gen func(prefix []lk.Op, alpha []lk.Op, d int)
	gen = func(prefix []lk.Op, alpha []lk.Op, d int) {
		if d == 0 {
			return
		}
		for _, op := range alpha {
			h := append(append([]lk.Op(nil), prefix...), op)
			// only maximal histories are run: every prefix is compared on the way
			if d == 1 {
				hs = append(hs, hist{h})
			}
			gen(h, alpha, d-1)
		}
	}
	gen(nil, alpha0, depth0)
	gen(c19Prelude(), alpha1, depth1)
	parallel(len(hs), func(i int) {
		if expired() {
			stats.add("histories_not_run_deadline", 1)
			return
		}
		sig, detail := c19RunHistory(ctx, hs[i].ops, stats)
		if sig != "" {
			violation("histories "+sig, detail)
		}
		mu.Lock()
		run.Eval(fmt.Sprint(hs[i].ops))
		mu.Unlock()
	})
	run.Set("histories", len(hs))

	if f := os.Getenv("VERIF_HEAPPROF"); f != "" {
		runtime.GC()
		if w, err := os.Create(f); err == nil {
			pprof.WriteHeapProfile(w)
			w.Close()
		}
	}
	if os.Getenv("VERIF_C19_ONLY_HISTORIES") != "" {
		return // debugging aid: repeat part (1) alone
	}
	// (2) load: inputs x encodings x {declared, auto-detect} x {plain, gzip}
	type lcase struct {
		in, enc, declared string
	}
	var lcases []lcase
	var names []string
	for n := range c19LoadInputs {
		names = append(names, n)
	}
	sort.Strings(names)
	for _, n := range names {
		for _, f := range c19LoadFormats {
			lcases = append(lcases, lcase{n, f, f}, lcase{n, f, ""})
		}
		// declared format that does not match the body
		lcases = append(lcases, lcase{n, "zson", "zng"}, lcase{n, "csv", "json"}, lcase{n, "zng", "vng"})
	}
	parallel(len(lcases), func(i int) {
		c := lcases[i]
		body, err := c19Encode(c19LoadInputs[c.in], c.enc)
		if err != nil || len(body) == 0 {
			stats.add("load_inputs_not_encodable", 1)
			return
		}
		sig, detail := c19LoadCase(ctx, body, c.declared, false)
		if sig != "" {
			if detail != nil {
				detail["input"], detail["encoded_as"] = c.in, c.enc
			}
			violation("load encoded="+c.enc+" "+sig, detail)
		}
		mu.Lock()
		run.Eval(fmt.Sprint("load", c))
		mu.Unlock()
		stats.add("loads", 1)
	})

	// (2b) a load whose source reader fails after k values: both paths must report the
	// failure and commit nothing
	for k := 0; k <= 3; k++ {
		k := k
		func() {
			p, err := newC19Pair(ctx)
			if err != nil {
				t.Errorf("harness: %v", err)
				return
			}
			defer p.Close()
			mk := lk.Op{Kind: "createpool", Pool: "p", Key: "k:asc"}
			if d, r := c19Apply(ctx, p.direct, mk), c19Apply(ctx, p.remote, mk); d.err != nil || r.err != nil {
				t.Errorf("harness: createpool: %v / %v", d.err, r.err)
				return
			}
			load := func(l *lk.Lake) error {
				id, err := l.Root.PoolID(ctx, "p")
				if err != nil {
					return err
				}
				zctx := zed.NewContext()
				_, err = l.API.Load(ctx, zctx, id, "main", &failingReader{zctx: zctx, left: k}, api.CommitMessage{Author: "verif", Body: "m"})
				return err
			}
			derr, rerr := load(p.direct), load(p.remote)
			run.Eval(fmt.Sprint("load from a reader failing after ", k))
			stats.add("loads_from_failing_readers", 1)
			detail := map[string]any{"values_before_the_source_fails": k, "direct_error": fmt.Sprint(derr), "remote_error": fmt.Sprint(rerr)}
			switch {
			case derr != nil && rerr == nil:
				violation("load symptom=source-error-dropped-by-remote-load", detail)
				return
			case derr == nil && rerr != nil:
				violation("load symptom=remote-load-fails-where-direct-succeeds", detail)
				return
			}
			sd, sr := c19DirRe.ReplaceAllString(c19State(ctx, p.direct), "<lake>"), c19DirRe.ReplaceAllString(c19State(ctx, p.served), "<lake>")
			if sd != sr {
				detail["direct_state"], detail["served_state"] = sd, sr
				violation("load symptom=state-differs-after-load-from-failing-source", detail)
			}
		}()
	}

	// (3) response formats x ctrl x queries on the prelude state; (4) errors after streaming started
	queries := []string{"from p", "from p@b", "from p | count()", "from p | yield v", "from p | yield k+1", "from p | put t:=typeof(this) | cut t", "from p | where k>100", "from :pools | cut name"}
	type qcase struct {
		q, format string
		ctrl      bool
		corrupt   string
	}
	var qcases []qcase
	for _, q := range queries {
		for _, f := range c19ResponseFormats {
			for _, ctrl := range []bool{true, false} {
				qcases = append(qcases, qcase{q, f, ctrl, ""})
			}
		}
	}
	for _, how := range []string{"missing", "truncated"} {
		for _, f := range []string{"zng", "zson", "zjson", "json", "ndjson", "csv"} {
			for _, ctrl := range []bool{true, false} {
				qcases = append(qcases, qcase{"from p", f, ctrl, how}, qcase{"from p | count()", f, ctrl, how})
			}
		}
	}
	parallel(len(qcases), func(i int) {
		c := qcases[i]
		p, err := newC19Pair(ctx)
		if err != nil {
			t.Errorf("harness: %v", err)
			return
		}
		defer p.Close()
		for _, op := range c19Prelude() {
			d, r := c19Apply(ctx, p.direct, op), c19Apply(ctx, p.remote, op)
			if d.err != nil || r.err != nil {
				t.Errorf("harness: prelude %s: %v / %v", op, d.err, r.err)
				return
			}
		}
		if c.corrupt != "" {
			if err := c19Corrupt(ctx, p.direct, c.corrupt); err != nil {
				t.Errorf("harness: corrupt: %v", err)
				return
			}
			if err := c19Corrupt(ctx, p.served, c.corrupt); err != nil {
				t.Errorf("harness: corrupt: %v", err)
				return
			}
		}
		// both queries under a generous watchdog: a query that never returns (the runtime can
		// deadlock while cancelling) must become a report, not a stuck check
		type both struct {
			want, got      []byte
			runErr, fmtErr error
			status         int
			late           string
			rerr           error
		}
		resCh := make(chan both, 1)
		go func() {
			var b both
			b.want, b.runErr, b.fmtErr = c19LocalFormatted(ctx, p.direct, c.q, c.format)
			b.status, b.got, b.late, b.rerr = c19RawQuery(ctx, p, c.q, c.format, c.ctrl)
			resCh <- b
		}()
		var b both
		select {
		case b = <-resCh:
		case <-time.After(5 * time.Minute):
			mu.Lock()
			run.Eval(fmt.Sprint("query", c))
			mu.Unlock()
			violation(fmt.Sprintf("query format=%s ctrl=%v object=%s symptom=query-does-not-return-within-5-minutes", c.format, c.ctrl, c.corrupt), map[string]any{"query": c.q, "format": c.format, "ctrl": c.ctrl, "object_damage": c.corrupt})
			return
		}
		want, runErr, fmtErr := b.want, b.runErr, b.fmtErr
		status, got, late, rerr := b.status, b.got, b.late, b.rerr
		mu.Lock()
		run.Eval(fmt.Sprint("query", c))
		mu.Unlock()
		stats.add("formatted_queries", 1)
		detail := map[string]any{"query": c.q, "format": c.format, "ctrl": c.ctrl, "object_damage": c.corrupt, "direct_run_error": fmt.Sprint(runErr), "direct_format_error": fmt.Sprint(fmtErr),
			"http_status": status, "remote_error": fmt.Sprint(rerr), "query_status_endpoint_error": late, "direct_output": rep.Short(string(want), 400), "remote_body": rep.Short(string(got), 400)}
		// Only ZNG and ZJSON responses with ctrl=T can carry control messages.
		inbandChannel := c.ctrl && (c.format == "zng" || c.format == "zjson")
		class := fmt.Sprintf("response-carries-control-messages=%v", inbandChannel)
		where := fmt.Sprintf(" format=%s ctrl=%v", c.format, c.ctrl)
		cause := "none"
		switch {
		case runErr != nil && len(want) == 0 && c.corrupt == "":
			cause = "query-fails-before-output"
		case runErr != nil:
			cause = "scan-fails-after-output-started"
		case fmtErr != nil:
			cause = "writer-rejects-value"
		}
		directFails := runErr != nil || fmtErr != nil
		// what the remote client can see: HTTP error, transport error, or in-band error
		remoteFails := rerr != nil || status >= 300
		var inband error
		if !remoteFails && c.format == "zjson" && c.ctrl {
			got, inband = c19StripControl(got)
		}
		var gotVals []string
		if !remoteFails && c.format == "zng" {
			gotVals, inband = c19Values(ctx, got, "zng")
		}
		if inband != nil || late != "" {
			remoteFails = true
		}
		switch {
		case directFails && !remoteFails:
			violation("query "+class+" cause="+cause+" symptom=error-not-reported-to-client", detail)
		case !directFails && remoteFails:
			violation("query"+where+" symptom=service-fails-where-direct-succeeds remote="+c19Short(errClass(firstErr(rerr, inband, func() error {
				if late != "" {
					return errors.New("query status: " + late)
				}
				return nil
			}(), fmt.Errorf("status %d", status)))), detail)
		case !directFails:
			if c.format == "zng" {
				wantVals, _ := c19Values(ctx, want, "zng")
				if strings.Join(wantVals, "\n") != strings.Join(gotVals, "\n") {
					detail["direct_values"], detail["remote_values"] = wantVals, gotVals
					violation("query"+where+" symptom=output-differs", detail)
				}
			} else if !bytes.Equal(want, got) {
				violation("query"+where+" symptom=output-differs", detail)
			}
		}
	})
	// (5) the query response protocol itself: every sequence of writer events up to the
	// depth (batches on three channels, end-of-channel, progress, a trailing error) written by
	// queryio.Writer with control messages and read back by the client's queryio.NewScanner
	// must deliver the same (channel, value) sequence, end-of-channel markers and error
	protoDepth := 5
	if rep.Thorough() {
		protoDepth = 6
	}
	type pev struct {
		kind string // "batch", "end", "progress", "error"
		ch   string
	}
	var alphabet []pev
	for _, ch := range []string{"main", "a", "b"} {
		alphabet = append(alphabet, pev{"batch", ch}, pev{"end", ch})
	}
	alphabet = append(alphabet, pev{"progress", ""})
	var protoSeqs [][]pev
	var genp func(prefix []pev)
	genp = func(prefix []pev) {
		if len(prefix) > 0 {
			protoSeqs = append(protoSeqs, append([]pev(nil), prefix...), append(append([]pev(nil), prefix...), pev{"error", ""}))
		}
		if len(prefix) == protoDepth {
			return
		}
		for _, e := range alphabet {
			genp(append(prefix, e))
		}
	}
	genp(nil)
	parallel(len(protoSeqs), func(i int) {
		seq := protoSeqs[i]
		var buf bytes.Buffer
		w, err := queryio.NewWriter(zio.NopCloser(&buf), "zng", nil, true)
		if err != nil {
			t.Errorf("harness: %v", err)
			return
		}
		var want []string
		wantErr := ""
		for k, e := range seq {
			switch e.kind {
			case "batch":
				v := zed.NewInt64(int64(k))
				if err := w.WriteBatch(e.ch, zbuf.NewArray([]zed.Value{v})); err != nil {
					t.Errorf("harness: WriteBatch: %v", err)
					return
				}
				want = append(want, fmt.Sprintf("%s:%d", e.ch, k))
			case "end":
				w.WhiteChannelEnd(e.ch)
				want = append(want, "end:"+e.ch)
			case "progress":
				w.WriteProgress(zbuf.Progress{})
			case "error":
				w.WriteError(errors.New("boom"))
				wantErr = "boom"
			}
		}
		w.Close()
		sc, err := queryio.NewScanner(ctx, io.NopCloser(bytes.NewReader(buf.Bytes())))
		if err != nil {
			t.Errorf("harness: %v", err)
			return
		}
		var got []string
		gotErr := ""
		// (the scanner's reader goroutines and frame buffers are released only when it is told to stop)
		defer sc.Pull(true)
		for {
			b, err := sc.Pull(false)
			if err != nil {
				gotErr = err.Error()
				break
			}
			if b == nil {
				break
			}
			if eoc, ok := b.(*zbuf.EndOfChannel); ok {
				got = append(got, "end:"+string(*eoc))
				continue
			}
			inner, label := zbuf.Unlabel(b)
			for _, v := range inner.Values() {
				got = append(got, label+":"+zson.FormatValue(v))
			}
			b.Unref()
		}
		mu.Lock()
		run.Eval(fmt.Sprint("protocol", seq))
		mu.Unlock()
		stats.add("protocol_sequences", 1)
		if strings.Join(want, " ") != strings.Join(got, " ") || wantErr != gotErr {
			violation("protocol symptom=client-sees-a-different-stream-than-the-service-wrote", map[string]any{"events": fmt.Sprint(seq), "written": want, "read": got, "error_written": wantErr, "error_read": gotErr})
		}
	})

	mu.Lock()
	for k, v := range stats.m {
		run.Set(k, v)
	}
	mu.Unlock()
	run.Sample(map[string]any{"alphabet_small": len(small), "alphabet_full": len(full), "depth_from_empty": depth0, "depth_from_prelude": depth1, "load_cases": len(lcases), "query_cases": len(qcases), "example_history": fmt.Sprint(hs[len(hs)/2].ops)})
	run.Set("exhaustive", !expired())
	run.Set("rule", "(1) every operation sequence of the stated depth over the alphabet (pool create/rename/drop, branch create/drop, loads incl. empty, delete by id and by predicate, compact, merge, revert, vectors, vacuum, queries incl. failing ones), from the empty lake and from a 5-operation prelude state, applied in lock step to a lake through lakeapi.FromRoot and to a second lake through lakeapi.NewRemoteLake over an httptest server running service.Core; after every step: same ok/error outcome, same query output in order, and the same state (pools with sort keys/threshold/stride, branches, branch contents in scan order (key sequence, and values as a multiset: the order among equal keys follows object ids, which differ between the two lakes), object ranges/counts/vector flags, commit-path lengths) read through independent direct handles. (2) three inputs x ten encodings x {declared content type, auto-detect} plus mismatched declarations, loaded through Connection.Load and through anyio+Load directly. (2b) loads from a source reader that fails after 0..3 values, through both paths: both must report the failure and leave the same state. (3) eight queries x every response format x ctrl {T,F}: the response body must equal the direct output written by the same writer (values for zng). (4) the same with the last data object missing or truncated so the query fails after streaming started: the failure must be visible to the client (HTTP status, transport error, in-band error message or the /query/status/{request id} endpoint). (5) every sequence of up to 5 (thorough 6) response events (a batch on one of three channels, end of a channel, progress), with and without a trailing error, written by queryio.Writer with control messages and read back by queryio.NewScanner: same (channel, value) sequence, end-of-channel markers and error")
	run.Assume("both lakes live on the real file system; ids differ between them, so ids are excluded from the comparison and objects are addressed by canonical index")
	run.Assume("one client at a time; concurrent requests are C12/C13's subject")
}

var c19DirRe = regexp.MustCompile(`(file://)?/[^ ]*verif-c19-[0-9]+/(direct|served)`)

func c19Short(s string) string { return rep.Short(c19DirRe.ReplaceAllString(s, "<lake>"), 80) }

// c19StripControl separates the control messages queryio interleaves in a
// ZJSON response from the data lines and returns the in-band error, if any.
func c19StripControl(body []byte) (data []byte, inband error) {
	var out bytes.Buffer
	for _, line := range bytes.SplitAfter(body, []byte("\n")) {
		var probe struct {
			Type  json.RawMessage `json:"type"`
			Value json.RawMessage `json:"value"`
		}
		if json.Unmarshal(line, &probe) == nil && len(probe.Type) > 0 && probe.Type[0] == '"' {
			if string(probe.Type) == `"QueryError"` {
				var qe api.QueryError
				json.Unmarshal(probe.Value, &qe)
				inband = errors.New(qe.Error)
			}
			continue
		}
		out.Write(line)
	}
	return out.Bytes(), inband
}

func firstErr(errs ...error) error {
	for _, e := range errs {
		if e != nil {
			return e
		}
	}
	return nil
}
