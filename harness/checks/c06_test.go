package checks

import (
	"context"
	"fmt"
	"sort"
	"strings"
	"sync"
	"testing"

	zed "github.com/brimdata/super"
	"github.com/brimdata/super/order"
	"github.com/brimdata/super/runtime/sam/expr"
	sortop "github.com/brimdata/super/runtime/sam/op/sort"
	"github.com/brimdata/super/zson"

	"verif/gen"
	"verif/rep"
)

// ---- C06: ordering is a total preorder; sort and merge honour it -----------------

func sgn(x int) int {
	switch {
	case x < 0:
		return -1
	case x > 0:
		return 1
	}
	return 0
}

func typeClass(v zed.Value) string {
	if v.IsNull() {
		return "null"
	}
	t := zed.TypeUnder(v.Type())
	if t.Kind() == zed.PrimitiveKind {
		switch {
		case zed.IsFloat(t.ID()):
			return "float"
		case zed.IsSigned(t.ID()), zed.IsUnsigned(t.ID()):
			return "int"
		}
		return zson.FormatType(t)
	}
	return t.Kind().String()
}

func classes(vs ...zed.Value) string {
	var c []string
	for _, v := range vs {
		c = append(c, typeClass(v))
	}
	sort.Strings(c)
	return strings.Join(c, ",")
}

func TestC06(t *testing.T) {
	run := rep.Start("C06", "exploration")
	defer run.Finish(t)
	ctx := context.Background()
	zctx := zed.NewContext()
	var K []gen.Value
	for _, v := range gen.Core(zctx) {
		K = append(K, v)
	}
	// extra numeric neighbours around 2^53 and 2^63 in every numeric type
	for _, s := range []string{`9007199254740992.`, `9007199254740994.`, `9007199254740992(uint64)`, `9223372036854775807(uint64)`, `9223372036854775808(uint64)`, `9223372036854775808.`,
		`-9223372036854775808.`, `1(uint8)`, `1.`, `1(int8)`, `2`, `1.5(float32)`, `"1"`, `"b"`, `0x61`, `[1]`, `[1,2,3]`, `[2]`, `{a:2}`, `{b:1}`, `|[1]|`, `|{1:"b"}|`, `error("a")`, `<string>`, `2.2.2.2`, `1s`, `1970-01-01T00:00:01Z`, `null(float64)`, `null({a:int64})`} {
		v, err := zson.ParseValue(zctx, s)
		if err != nil {
			t.Fatalf("harness literal %s: %v", s, err)
		}
		K = append(K, gen.Value{Name: s, Val: v.Copy()})
	}
	n := len(K)
	type cfg struct {
		o        order.Which
		nullsMax bool
	}
	cfgs := []cfg{{order.Asc, true}, {order.Asc, false}, {order.Desc, true}, {order.Desc, false}}
	// (1) laws over all pairs and triples
	var mu sync.Mutex
	report := func(sig string, d map[string]any) {
		mu.Lock()
		run.Violation(sig, d)
		mu.Unlock()
	}
	for _, c := range cfgs {
		c := c
		// comparison matrix (each worker needs its own comparator: it holds scratch state)
		M := make([][]int8, n)
		parallel(n, func(i int) {
			cmp := expr.NewValueCompareFn(c.o, c.nullsMax)
			row := make([]int8, n)
			for j := 0; j < n; j++ {
				row[j] = int8(sgn(cmp(K[i].Val, K[j].Val)))
			}
			M[i] = row
		})
		cname := fmt.Sprintf("order=%s nullsMax=%v", c.o, c.nullsMax)
		for i := 0; i < n; i++ {
			if M[i][i] != 0 {
				report(fmt.Sprintf("law=reflexivity %s class=%s", cname, classes(K[i].Val)), map[string]any{"a": K[i].Name})
			}
			for j := 0; j < n; j++ {
				run.AddEvals(1)
				if M[i][j] != -M[j][i] {
					report(fmt.Sprintf("law=antisymmetry %s classes=%s", cname, classes(K[i].Val, K[j].Val)),
						map[string]any{"a": K[i].Name, "b": K[j].Name, "cmp(a,b)": M[i][j], "cmp(b,a)": M[j][i]})
				}
			}
		}
		parallel(n, func(i int) {
			for j := 0; j < n; j++ {
				if M[i][j] > 0 {
					continue
				}
				for k := 0; k < n; k++ {
					if M[j][k] <= 0 && M[i][k] > 0 {
						report(fmt.Sprintf("law=transitivity classes=%s", classes(K[i].Val, K[j].Val, K[k].Val)),
							map[string]any{"a": K[i].Name, "b": K[j].Name, "c": K[k].Name, "cmp(a,b)": M[i][j], "cmp(b,c)": M[j][k], "cmp(a,c)": M[i][k]})
					}
					// equality must be transitive too (a preorder's equivalence)
					if M[i][j] == 0 && M[j][k] == 0 && M[i][k] != 0 {
						report(fmt.Sprintf("law=equivalence-transitivity classes=%s", classes(K[i].Val, K[j].Val, K[k].Val)),
							map[string]any{"a": K[i].Name, "b": K[j].Name, "c": K[k].Name, "cmp(a,c)": M[i][k]})
					}
				}
			}
		})
		run.AddEvals(int64(n) * int64(n) * int64(n))
		// bulk path == insertion sort by Compare, for every triple
		parallel(n, func(i int) {
			comp := expr.NewComparator(c.nullsMax, expr.NewSortEvaluator(&expr.This{}, c.o))
			for j := 0; j < n; j++ {
				for k := 0; k < n; k++ {
					in := []zed.Value{K[i].Val, K[j].Val, K[k].Val}
					idx := []int{i, j, k}
					// stable insertion sort by the matrix
					want := []int{0, 1, 2}
					for a := 1; a < 3; a++ {
						for b := a; b > 0 && M[idx[want[b-1]]][idx[want[b]]] > 0; b-- {
							want[b-1], want[b] = want[b], want[b-1]
						}
					}
					vals := append([]zed.Value(nil), in...)
					comp.SortStable(vals)
					for p := 0; p < 3; p++ {
						w := in[want[p]]
						if vals[p].Type() != w.Type() || string(vals[p].Bytes()) != string(w.Bytes()) || vals[p].IsNull() != w.IsNull() {
							report(fmt.Sprintf("bulk-sort-differs-from-pairwise-compare %s classes=%s", cname, classes(in...)),
								map[string]any{"input": []string{K[i].Name, K[j].Name, K[k].Name}, "expected_order": want, "got": describeAll(vals)})
							break
						}
					}
				}
			}
		})
		run.AddEvals(int64(n) * int64(n) * int64(n))
	}
	run.Sample(map[string]any{"part": "laws", "universe": n, "pairs": n * n, "triples": n * n * n, "configs": len(cfgs)})
	// (2) compare() in queries agrees with the comparator
	{
		var b strings.Builder
		type pr struct{ i, j int }
		var prs []pr
		for i := 0; i < n; i++ {
			if strings.HasPrefix(K[i].Name, "builder:") {
				continue
			}
			for j := 0; j < n; j++ {
				if strings.HasPrefix(K[j].Name, "builder:") {
					continue
				}
				fmt.Fprintf(&b, "{a:%s,b:%s}\n", K[i].Name, K[j].Name)
				prs = append(prs, pr{i, j})
			}
		}
		for _, nm := range []bool{true, false} {
			out, err := runQueryOnText(ctx, b.String(), fmt.Sprintf("yield compare(a,b,%v)", nm))
			if err != nil || len(out) != len(prs) {
				lines := strings.Split(strings.TrimSpace(b.String()), "\n")
				culprit := ""
				if len(out) < len(lines) {
					culprit = lines[len(out)]
				}
				t.Fatalf("compare() query: %v (%d of %d) next line: %s", err, len(out), len(prs), culprit)
			}
			cmp := expr.NewValueCompareFn(order.Asc, nm)
			for k, p := range prs {
				run.AddEvals(1)
				want := fmt.Sprint(cmp(K[p.i].Val, K[p.j].Val))
				if out[k] != want {
					report(fmt.Sprintf("compare()-function-differs-from-comparator nullsMax=%v classes=%s", nm, classes(K[p.i].Val, K[p.j].Val)),
						map[string]any{"a": K[p.i].Name, "b": K[p.j].Name, "compare()": out[k], "comparator": want})
				}
			}
		}
	}
	// (3) the sort operator: all input sequences over a key alphabet, keys, memory limits
	keyAlpha := []string{`1`, `2`, `2.`, `"a"`, `null`, `1(uint8)`, `[1]`, ``} // last: key missing
	maxLen := 4
	if rep.Thorough() {
		maxLen = 5
	}
	sortSpecs := []struct {
		spec     string
		o        order.Which
		nullsMax bool
	}{
		{"sort k", order.Asc, true}, {"sort k desc", order.Desc, false}, {"sort -r k", order.Desc, false},
		{"sort -nulls first k", order.Asc, false}, {"sort -nulls first k desc", order.Desc, true},
	}
	var inputs [][]int
	var recSeq func(prefix []int)
	recSeq = func(prefix []int) {
		if len(prefix) > 0 {
			inputs = append(inputs, append([]int(nil), prefix...))
		}
		if len(prefix) == maxLen {
			return
		}
		for a := range keyAlpha {
			recSeq(append(prefix, a))
		}
	}
	recSeq(nil)
	mkInput := func(seq []int) (string, []zed.Value) {
		var b strings.Builder
		var vals []zed.Value
		for i, a := range seq {
			s := fmt.Sprintf("{i:%d}", i)
			if keyAlpha[a] != "" {
				s = fmt.Sprintf("{k:%s,i:%d}", keyAlpha[a], i)
			}
			b.WriteString(s + "\n")
			v, _ := zson.ParseValue(zctx, s)
			vals = append(vals, v.Copy())
		}
		return b.String(), vals
	}
	saved := sortop.MemMaxBytes
	defer func() { sortop.MemMaxBytes = saved }()
	for _, limit := range []int{saved, 40, 1} {
		sortop.MemMaxBytes = limit
		lname := map[int]string{saved: "default", 40: "40B", 1: "1B"}[limit]
		for _, sp := range sortSpecs {
			sp := sp
			parallel(len(inputs), func(ii int) {
				seq := inputs[ii]
				if limit != saved && len(seq) < 3 && !rep.Thorough() {
					return
				}
				text, vals := mkInput(seq)
				got, err := runQueryOnText(ctx, text, sp.spec)
				mu.Lock()
				run.Eval(fmt.Sprintf("sort/%s/%v", sp.spec, seq))
				mu.Unlock()
				if err != nil {
					report(fmt.Sprintf("sort-operator spec=%q mem=%s symptom=error: %s", sp.spec, lname, errClass(err)), map[string]any{"input": text})
					return
				}
				// reference: stable insertion sort by the operator's comparison on k
				cmp := expr.NewComparator(sp.nullsMax, expr.NewSortEvaluator(expr.NewDottedExpr(zctx, []string{"k"}), sp.o)).WithMissingAsNull()
				want := append([]zed.Value(nil), vals...)
				for a := 1; a < len(want); a++ {
					for b := a; b > 0 && cmp.Compare(want[b-1], want[b]) > 0; b-- {
						want[b-1], want[b] = want[b], want[b-1]
					}
				}
				var ws []string
				for _, v := range want {
					ws = append(ws, zson.FormatValue(v))
				}
				if strings.Join(ws, "\n") != strings.Join(got, "\n") {
					report(fmt.Sprintf("sort-operator spec=%q mem=%s symptom=output-is-not-the-stable-sort-by-compare", sp.spec, lname),
						map[string]any{"input": strings.Fields(text), "got": got, "want": ws})
				}
			})
		}
	}
	sortop.MemMaxBytes = saved
	run.Sample(map[string]any{"part": "sort operator", "input_sequences": len(inputs), "specs": len(sortSpecs), "memory_limits": 3})
	// (4) k-way merge of sorted runs: every split of every sorted sequence
	mergeAlpha := []string{`1`, `1`, `2`, `"a"`, `null`}
	var msplits int
	var recM func(assign []int)
	var mjobs [][]int
	mlen := 4
	if rep.Thorough() {
		mlen = 5
	}
	recM = func(assign []int) {
		if len(assign) > 0 {
			mjobs = append(mjobs, append([]int(nil), assign...))
		}
		if len(assign) == mlen {
			return
		}
		for p := 0; p < 3; p++ {
			recM(append(assign, p))
		}
	}
	recM(nil)
	parallel(len(mjobs), func(mi int) {
		assign := mjobs[mi]
		var b strings.Builder
		var vals []zed.Value
		for i, p := range assign {
			s := fmt.Sprintf("{k:%s,p:%d,i:%d}", mergeAlpha[i], p, i)
			b.WriteString(s + "\n")
			v, _ := zson.ParseValue(zctx, s)
			vals = append(vals, v.Copy())
		}
		got, err := runQueryOnText(ctx, b.String(), "fork (=> where p==0 => where p==1 => where p==2) | merge k")
		mu.Lock()
		msplits++
		run.Eval(fmt.Sprintf("merge/%v", assign))
		mu.Unlock()
		if err != nil {
			report("merge-operator symptom=error: "+errClass(err), map[string]any{"input": b.String()})
			return
		}
		cmp := expr.NewComparator(true, expr.NewSortEvaluator(expr.NewDottedExpr(zctx, []string{"k"}), order.Asc)).WithMissingAsNull()
		var want []string
		for _, v := range vals {
			want = append(want, zson.FormatValue(v))
		}
		bad := ""
		if !sameMultiset(got, want) {
			bad = "not-a-permutation-of-the-inputs"
		} else {
			gv := make([]zed.Value, len(got))
			lastIdx := map[string]int{}
			for i, s := range got {
				v, _ := zson.ParseValue(zctx, s)
				gv[i] = v.Copy()
				if i > 0 && cmp.Compare(gv[i-1], gv[i]) > 0 {
					bad = "output-not-sorted"
				}
				p := zson.FormatValue(*v.Deref("p"))
				idx := int(v.Deref("i").Int())
				if last, ok := lastIdx[p]; ok && idx < last {
					bad = "a-parent's-order-was-not-kept"
				}
				lastIdx[p] = idx
			}
		}
		if bad != "" {
			report("merge-operator symptom="+bad, map[string]any{"input": strings.Fields(b.String()), "got": got})
		}
	})
	run.Set("merge_splits", msplits)
	run.Set("exhaustive", true)
	run.Set("rule", "K = boundary universe of every type plus numeric neighbours of 2^53/2^63 in several numeric types; for all pairs and triples of K and (asc/desc) x (nulls max/min): cmp(a,a)=0, sign(cmp(a,b)) = -sign(cmp(b,a)), transitivity of <= and of equality, Comparator.SortStable of every triple == stable insertion sort by Compare; compare(a,b,nullsMax) in a query == comparator for all pairs; sort operator: every input sequence up to length 4 (thorough 5) over an 8-key alphabet (duplicates, cross-type numerics, null, missing) x 5 sort specs x memory limits {default, 40 B, 1 B} == stable insertion sort by the operator's comparison; merge: every assignment of every sorted sequence up to length 4 (5) to <= 3 parents: output sorted, a permutation, parents' orders kept")
}
