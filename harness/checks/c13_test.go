package checks

import (
	"context"
	"fmt"
	"strings"
	"testing"
	"time"

	"verif/lk"
	"verif/rep"
	"verif/vsched"
	"verif/vstore"
)

// ---- C13: a commit is an immutable snapshot; readers are isolated ----------------

func c13RaceScenarios() []concScenario {
	mkp := lk.Op{Kind: "createpool", Pool: "p", Key: "k:asc"}
	mkq := lk.Op{Kind: "createpool", Pool: "p", Key: "k:asc", Thresh: 1, Stride: 1}
	l1 := ld("p", "main", `{k:1,v:"a"} {k:2,v:"b"}`)
	l2 := ld("p", "main", `{k:3,v:"c"}`)
	q := lk.Op{Kind: "query", Name: "from p"}
	qf := lk.Op{Kind: "query", Name: "from p | k>=2"}
	la := ld("p", "main", `{k:10,v:"A"}`)
	del0 := lk.Op{Kind: "delete", Pool: "p", Branch: "main", Idx: []int{0}}
	dw := lk.Op{Kind: "deletewhere", Pool: "p", Branch: "main", Name: "k==1"}
	cmp := lk.Op{Kind: "compact", Pool: "p", Branch: "main", Idx: []int{0, 1}}
	var out []concScenario
	for _, m := range []string{"atomic", "file"} {
		add := func(name string, setup []lk.Op, clients [][]lk.Op, prelude [][]lk.Op, bound int, quick bool) {
			heavy := name != "query||load" && name != "warm-query||load"
			out = append(out, concScenario{Name: name, Mode: m, Setup: setup, Clients: clients, Prelude: prelude, Bound: bound, Quick: quick, Heavy: heavy})
		}
		add("query||load", []lk.Op{mkp, l1}, [][]lk.Op{{q}, {la}}, nil, -1, true)
		add("warm-query||load", []lk.Op{mkp, l1}, [][]lk.Op{{q}, {la}}, [][]lk.Op{{q}}, -1, true)
		add("query||delete", []lk.Op{mkp, l1, l2}, [][]lk.Op{{q}, {del0}}, nil, -1, true)
		add("query||delete-where", []lk.Op{mkp, l1, l2}, [][]lk.Op{{q}, {dw}}, nil, -1, m == "atomic")
		add("query||compact", []lk.Op{mkp, l1, l2}, [][]lk.Op{{q}, {cmp}}, nil, -1, m == "file")
		add("filtered-query-many-objects||load", []lk.Op{mkq, l1, l2}, [][]lk.Op{{qf}, {la}}, nil, 2, false)
		// a query that starts after the writer's acknowledgement must see the commit
		add("query||load-then-query", []lk.Op{mkp, l1}, [][]lk.Op{{q}, {la, q}}, [][]lk.Op{{q}}, 2, true)
		add("query||query||load", []lk.Op{mkp, l1}, [][]lk.Op{{q}, {q}, {la}}, nil, 2, false)
	}
	return out
}

// warmPaths runs every history of the given depth over cfg's alphabet on one
// store with a long-lived writer handle and a long-lived reader handle (warm
// caches); after every step the reader re-queries every branch tip and every
// commit created so far and compares with the model.
func warmPaths(t *testing.T, cfg *hConfig, depth int, deadline time.Time, run *rep.Run) (paths, queries int, complete bool) {
	ctx := context.Background()
	installIDs()
	complete = true
	var explore func(prefix []hOp)
	explore = func(prefix []hOp) {
		if time.Now().After(deadline) {
			complete = false
			return
		}
		var m *mLake
		var failed string
		bubble(t, func() {
			vsched.SetCurrent(-1)
			idReader.Reset()
			st, err := buildSetup(ctx, vstore.Atomic, []lk.Op{{Kind: "createpool", Pool: hPool, Key: cfg.Key, Thresh: cfg.Thresh, Stride: cfg.Stride}}, true)
			if err != nil {
				t.Fatalf("setup: %v", err)
			}
			w, err := lk.Open(ctx, lk.NewEngine(st, "w", nil))
			if err != nil {
				t.Fatal(err)
			}
			r, err := lk.Open(ctx, lk.NewEngine(st, "r", nil))
			if err != nil {
				t.Fatal(err)
			}
			m = newModel(cfg.Key)
			var hist []string
			for _, op := range prefix {
				hist = append(hist, op.String())
				lop, exp, err := cfg.expect(ctx, m, op)
				if err != nil {
					t.Fatalf("harness: %v", err)
				}
				_, opErr := w.Apply(ctx, lop)
				real, exErr := extractReal(ctx, st, hPool)
				if exErr != nil {
					failed = "state-unreadable: " + symClass(errClass(exErr))
					return
				}
				if opErr == nil && exp.outcome != "err" {
					switch op.Kind {
					case "vacuum":
						objs, _ := m.snap(m.Branches[op.Branch])
						for _, c := range m.chain(m.Branches[op.Branch]) {
							for _, o := range m.Commits[c].Adds {
								if !objs[o] {
									m.Vacuumed[o] = true
								}
							}
						}
					case "createbranch":
						exp.bind(m, real, nil)
					default:
						rc := real.Commits[real.Branches[op.Branch]]
						if rc == nil {
							failed = "no-new-commit"
							return
						}
						if s := exp.bind(m, real, rc); s != "" {
							failed = "commit-differs-from-model: " + s
							return
						}
					}
				}
				// the warm reader looks at everything again
				check := func(rev string, commit int) {
					objs, _ := m.snap(commit)
					for o := range objs {
						if m.Vacuumed[o] {
							return
						}
					}
					got, err := r.Query(ctx, fmt.Sprintf("from %s@%s", hPool, rev))
					queries++
					if err != nil {
						failed = "warm-reader-query-failed: " + symClass(errClass(err))
						return
					}
					if !sameMultiset(got, m.values(commit)) {
						failed = fmt.Sprintf("warm-reader-sees-different-data at %s", map[bool]string{true: "branch tip", false: "old commit"}[!strings.Contains(rev, "0") && len(rev) < 20])
					}
				}
				for b, tip := range m.Branches {
					check(b, tip)
				}
				for id, c := range m.Commits {
					check(c.Real, id)
				}
				if failed != "" {
					run.Violation(fmt.Sprintf("warm-handle config=%s symptom=%s", cfg.Name, failed), map[string]any{"config": cfg.Name, "history": hist})
					return
				}
			}
		})
		paths++
		run.Eval("warm/" + cfg.Name + "/" + fmt.Sprint(prefix))
		if failed != "" || len(prefix) >= depth {
			return
		}
		for _, op := range cfg.Ops(m, cfg) {
			explore(append(prefix[:len(prefix):len(prefix)], op))
		}
	}
	explore(nil)
	return
}

func TestC13(t *testing.T) {
	run := rep.Start("C13", "model_checking")
	defer run.Finish(t)
	// (1) reader ‖ writer: all interleavings
	runConc(t, run, c13RaceScenarios(), 3*time.Minute, 25*time.Minute)
	// (3) the same with long-lived (warm) writer and reader handles
	// (run before the long history search so that a tight wall-clock budget cannot starve it)
	warmDeadline := rep.Deadline(3*time.Minute, 30*time.Minute)
	wd := 2
	if rep.Thorough() {
		wd = 3
	}
	paths, queries, complete := 0, 0, true
	for _, cfg := range c13Configs() {
		p, q, c := warmPaths(t, cfg, wd, warmDeadline, run)
		paths += p
		queries += q
		complete = complete && c
	}
	// (2) immutability over histories, cold handles: the history search re-queries
	// every commit in every state
	sub := rep.Start("C13", "model_checking")
	depth := 3
	if rep.Thorough() {
		depth = 4
	}
	runHistoryShards(t, sub, "c13", len(c13Configs()), []int{0, 1}, depth, rep.Deadline(4*time.Minute, 40*time.Minute))
	run.Merge(sub, "history_")
	run.Set("warm_handle_histories", paths)
	run.Set("warm_handle_queries", queries)
	run.Set("warm_handle_depth", wd)
	run.Set("warm_handle_complete", complete)
	run.Set("rule", "(1) a reader's query (all its storage reads are scheduling points) against a concurrent load / delete / delete-where / compact from another handle, also with a pre-warmed reader and with a second query issued after the writer's acknowledgement: every interleaving within the bound; the query must return exactly the contents of one sequentially reachable commit, consistent with real-time order. (2) BFS over histories (C14 data operations plus branch, merge, revert): in every state every commit ever created is re-queried from a cold handle and must equal its model contents (vacuumed commits excluded, as the property says). (3) every history up to the stated depth run on one store with long-lived writer and reader handles; after each step the warm reader re-queries every tip and every commit")
	run.Assume("pool and branch renames are covered by the C12 scenarios; here commits are addressed by id")
}

func c13Configs() []*hConfig {
	all := func(m *mLake, cfg *hConfig) []hOp {
		ops := c14DataOps(func(m *mLake) []string {
			names := []string{"main"}
			if _, ok := m.Branches["b"]; ok {
				names = append(names, "b")
			}
			return names
		})(m, cfg)
		if _, ok := m.Branches["b"]; !ok {
			ops = append(ops, hOp{Kind: "createbranch", Branch: "main", Name: "b", At: -1})
		} else {
			ops = append(ops, hOp{Kind: "merge", Branch: "main", Name: "b"})
		}
		chain := m.chain(m.Branches["main"])
		if len(chain) > 0 {
			ops = append(ops, hOp{Kind: "revert", Branch: "main", At: len(chain) - 1})
		}
		return ops
	}
	return []*hConfig{
		{Name: "key=k:asc default", Key: "k:asc", Batches: c14Batches["k"][:2], Preds: c14Preds["k"][:2], Ops: all},
		{Name: "key=k:desc thresh=1", Key: "k:desc", Thresh: 1, Stride: 1, Batches: c14Batches["k"][:2], Preds: c14Preds["k"][:2], Ops: all},
	}
}
