package checks

import (
	"encoding/json"
	"fmt"
	"os"
	"os/exec"
	"runtime"
	"strconv"
	"sync"
	"testing"
	"time"

	"verif/rep"
)

// ---- C14: pool contents == loaded − deleted ------------------------------------

var c14Batches = map[string][]string{
	"k": {
		`{k:1,v:"a"} {k:3,v:"b"} {k:3,v:"c"}`,              // duplicate keys
		`{k:2,v:"d"} {k:"s",v:"e"} {k:null,v:"f"} {v:"g"}`, // mixed key types, null and missing key
		`{k:3,v:"h"}`,
	},
	"a.b": {
		`{a:{b:1},v:"a"} {a:{b:3},v:"b"} {a:{b:3},v:"c"}`,
		`{a:{b:2},v:"d"} {a:{b:"s"},v:"e"} {a:{b:null},v:"f"} {a:1,v:"g"} {v:"i"}`,
		`{a:{b:3},v:"h"}`,
	},
	"this": {
		`1 3 3`,
		`2 "s" null {x:1}`, // non-record values with key this
		`3`,
	},
}

var c14Preds = map[string][]string{
	"k":    {"k>=3", `v=="d" or v=="a"`, "k==100"},
	"a.b":  {"a.b>=3", `v=="d" or v=="a"`, "a.b==100"},
	"this": {"this>=3", `this=="s" or this==1`, "this==100"},
}

func c14DataOps(branches func(m *mLake) []string) func(m *mLake, cfg *hConfig) []hOp {
	return func(m *mLake, cfg *hConfig) []hOp {
		var ops []hOp
		for _, b := range branches(m) {
			tip := m.Branches[b]
			objs := m.objList(tip)
			_, vecs := m.snap(tip)
			for i := range cfg.Batches {
				ops = append(ops, hOp{Kind: "load", Branch: b, Batch: i})
			}
			for i := 0; i < len(objs) && i < 2; i++ {
				ops = append(ops, hOp{Kind: "delete", Branch: b, Obj: []int{i}})
			}
			if len(objs) > 0 {
				for _, p := range cfg.Preds {
					ops = append(ops, hOp{Kind: "deletewhere", Branch: b, Pred: p})
				}
				if vecs[objs[0].ID] {
					ops = append(ops, hOp{Kind: "delvec", Branch: b, Obj: []int{0}})
				} else {
					ops = append(ops, hOp{Kind: "addvec", Branch: b, Obj: []int{0}})
				}
			}
			if len(objs) >= 2 {
				ops = append(ops, hOp{Kind: "compact", Branch: b, Obj: []int{0, 1}}, hOp{Kind: "compact", Branch: b, Obj: []int{0, 1}, Vec: true})
				if len(objs) >= 3 {
					all := make([]int, len(objs))
					for i := range all {
						all[i] = i
					}
					ops = append(ops, hOp{Kind: "compact", Branch: b, Obj: all})
				}
			}
			if len(m.chain(tip)) >= 2 {
				ops = append(ops, hOp{Kind: "vacuum", Branch: b})
			}
		}
		return ops
	}
}

func mainOnly(*mLake) []string { return []string{"main"} }

func c14Configs() []*hConfig {
	var out []*hConfig
	for _, key := range []string{"k", "a.b", "this"} {
		for _, ord := range []string{"asc", "desc"} {
			for _, small := range []bool{true, false} {
				cfg := &hConfig{Key: key + ":" + ord, Batches: c14Batches[key], Preds: c14Preds[key], Ops: c14DataOps(mainOnly)}
				if small {
					cfg.Thresh, cfg.Stride = 1, 1
				}
				cfg.Name = fmt.Sprintf("key=%s thresh=%d stride=%d", cfg.Key, cfg.Thresh, cfg.Stride)
				out = append(out, cfg)
			}
		}
	}
	// objects nested in one another: a wide object containing two disjoint narrower ones
	// (configs 12 and 13); the search starts after the three loads
	nested := []string{`{k:1,v:"a"} {k:10,v:"b"}`, `{k:5,v:"c"} {k:6,v:"d"}`, `{k:2,v:"e"} {k:3,v:"f"}`}
	for _, ord := range []string{"asc", "desc"} {
		cfg := &hConfig{Key: "k:" + ord, Batches: nested, Preds: []string{"k>=5", `v=="a"`, "k==100"}, Ops: c14DataOps(mainOnly),
			Prefix: []hOp{{Kind: "load", Branch: "main", Batch: 0}, {Kind: "load", Branch: "main", Batch: 1}, {Kind: "load", Branch: "main", Batch: 2}}, DepthAdj: [2]int{-1, -1}}
		cfg.Name = fmt.Sprintf("key=%s nested-objects", cfg.Key)
		out = append(out, cfg)
	}
	// objects of several values whose seek index has several entries (small stride, default
	// threshold): configs 14 and 15
	for _, ord := range []string{"asc", "desc"} {
		cfg := &hConfig{Key: "k:" + ord, Stride: 4, Batches: append([]string{`{k:1,v:"a"} {k:2,v:"b"} {k:4,v:"c"} {k:7,v:"d"} {k:8,v:"e"} {k:9,v:"f"}`}, nested[1:]...), Preds: []string{"k<=3", "k>=5", `v=="a"`}, Ops: c14DataOps(mainOnly)}
		cfg.Name = fmt.Sprintf("key=%s thresh=0 stride=4", cfg.Key)
		out = append(out, cfg)
	}
	return out
}

func TestC14(t *testing.T) {
	run := rep.Start("C14", "model_checking")
	defer run.Finish(t)
	cfgs := c14Configs()
	depth := 3
	if rep.Thorough() {
		depth = 4
	}
	if d, err := strconv.Atoi(os.Getenv("VERIF_DEPTH")); err == nil {
		depth = d
	}
	var sel []int
	for i := range cfgs {
		// quick: key k and this with small objects, a.b with default
		if rep.Thorough() || i == 0 || i == 3 || i == 5 || i == 8 || i == 10 || i == 12 || i == 13 || i == 14 || i == 15 {
			sel = append(sel, i)
		}
	}
	runHistoryShards(t, run, "c14", len(cfgs), sel, depth, rep.Deadline(4*time.Minute, 40*time.Minute))
	run.Assume("values come from three fixed batches per pool key (duplicate keys, mixed key types, null and missing keys, non-record values for key this; and a wide object containing two disjoint narrower ones); long random histories are outside this technique")
	run.Assume("the model adopts the implementation's partition of new values into objects after checking their union; it predicts sets of objects per commit and values per object set")
	run.Assume("expected delete-where matches are computed by evaluating the predicate on each value in memory with the sequential runtime (no lake, no pruning)")
	run.Assume("tie order determinism is checked by repeating each tip scan 3 times from cold handles (Go map iteration order cannot be enumerated)")
}

// runHistoryShards runs cfg.search for each selected config in a child process.
func runHistoryShards(t *testing.T, run *rep.Run, family string, n int, sel []int, depth int, deadline time.Time) {
	tmp, err := os.MkdirTemp("", "verif-hist-")
	if err != nil {
		t.Fatal(err)
	}
	defer os.RemoveAll(tmp)
	results := make([]*hResult, n)
	var wg sync.WaitGroup
	sem := make(chan struct{}, runtime.NumCPU())
	var mu sync.Mutex
	var failures []string
	for _, i := range sel {
		i := i
		wg.Add(1)
		go func() {
			defer wg.Done()
			sem <- struct{}{}
			defer func() { <-sem }()
			out := fmt.Sprintf("%s/%d.json", tmp, i)
			cmd := exec.Command(os.Args[0], "-test.run", "^TestHistoryChild$", "-test.timeout", "0")
			cmd.Env = append(os.Environ(), "VERIF_HCHILD="+family, "VERIF_HCHILD_CFG="+strconv.Itoa(i), "VERIF_HCHILD_DEPTH="+strconv.Itoa(depth),
				"VERIF_HCHILD_OUT="+out, "VERIF_HCHILD_DEADLINE="+strconv.FormatInt(deadline.UnixNano(), 10), "GOMAXPROCS=2")
			b, err := cmd.CombinedOutput()
			data, rerr := os.ReadFile(out)
			if rerr != nil {
				mu.Lock()
				failures = append(failures, fmt.Sprintf("config %d: child failed: %v\n%s", i, err, tail(string(b), 3000)))
				mu.Unlock()
				return
			}
			var r hResult
			if err := json.Unmarshal(data, &r); err != nil {
				mu.Lock()
				failures = append(failures, fmt.Sprintf("config %d: %v", i, err))
				mu.Unlock()
				return
			}
			results[i] = &r
		}()
	}
	wg.Wait()
	if len(failures) > 0 {
		for _, f := range failures {
			fmt.Println("HARNESS-ERROR:", f)
		}
		t.Fatalf("%d child processes failed", len(failures))
	}
	var states, transitions, queries, oldq, objs int64
	exhaustive := true
	kinds := map[string]int{}
	run.MaxSamples = 100
	for _, r := range results {
		if r == nil {
			continue
		}
		states += int64(r.States)
		transitions += int64(r.Transitions)
		queries += int64(r.Queries)
		oldq += int64(r.OldCommitQueries)
		objs += int64(r.ObjectsAudited)
		if !r.Complete {
			exhaustive = false
		}
		for k, v := range r.OpKinds {
			kinds[k] += v
		}
		for _, v := range r.Violations {
			run.Violation(v.Sig, v.Detail)
		}
		run.Sample(map[string]any{"config": r.Config, "depth_completed": r.Depth, "states": r.States, "transitions": r.Transitions,
			"complete": r.Complete, "failed_ops_checked_for_no_effect": r.ErrOps, "example_histories": r.Samples})
	}
	run.Set("states", states)
	run.Set("transitions", transitions)
	run.Set("evaluations", transitions)
	run.Set("distinct_nontrivial", states)
	run.Set("traces_validated_against_impl", transitions)
	run.Set("queries", queries)
	run.Set("old_commit_requeries", oldq)
	run.Set("object_audits", objs)
	run.Set("operations_by_kind", kinds)
	run.Set("max_depth", depth)
	run.Set("exhaustive", exhaustive)
	run.Set("explanation", "explicit-state breadth-first search: a state is a storage image of the real lake; a transition clones the image, opens a cold handle and applies one operation with the real code; every state is compared with the reference model (commit chain, objects, values) and audited; states are deduplicated by the model's canonical form (ids renamed) plus the set of cached snapshot files. Every transition is an implementation execution, so traces_validated_against_impl = transitions.")
	run.Set("rule", "BFS to the stated depth over {load(3 batches), delete(obj 0/1), delete-where(3 predicates), compact(first two, with/without vectors, all), vector add/del, vacuum} per pool configuration (key path x order x threshold/stride). distinct = distinct canonical states")
}

func TestHistoryChild(t *testing.T) {
	family := os.Getenv("VERIF_HCHILD")
	if family == "" {
		t.Skip("child-only")
	}
	i, _ := strconv.Atoi(os.Getenv("VERIF_HCHILD_CFG"))
	depth, _ := strconv.Atoi(os.Getenv("VERIF_HCHILD_DEPTH"))
	ns, _ := strconv.ParseInt(os.Getenv("VERIF_HCHILD_DEADLINE"), 10, 64)
	var cfg *hConfig
	switch family {
	case "c14":
		cfg = c14Configs()[i]
	case "c15":
		cfg = c15Configs()[i]
	case "c13":
		cfg = c13Configs()[i]
	}
	r := cfg.search(t, depth, time.Unix(0, ns))
	b, err := json.Marshal(r)
	if err != nil {
		t.Fatal(err)
	}
	if err := os.WriteFile(os.Getenv("VERIF_HCHILD_OUT"), b, 0o644); err != nil {
		t.Fatal(err)
	}
}
