package checks

import (
	"context"
	"fmt"
	"math/rand"
	"regexp"
	"sort"
	"strings"
	"sync"
	"testing"
	"time"

	"github.com/segmentio/ksuid"

	"verif/lk"
	"verif/vsched"
	"verif/vstore"
)

// ---- shared machinery for schedule exploration over storage gates (C12, C13, C15) ----

type concScenario struct {
	Name    string    `json:"name"`
	Mode    string    `json:"mode"`
	Setup   []lk.Op   `json:"setup"`
	Clients [][]lk.Op `json:"clients"`
	Bound   int       `json:"bound"` // preemption bound; <0 = unbounded (closed by memoisation)
	// Prelude operations run on each client's handle before the exploration
	// starts, un-gated and one client at a time (e.g. to warm its caches).
	Prelude [][]lk.Op `json:"prelude,omitempty"`
	Quick   bool      `json:"-"`
	Heavy   bool      `json:"-"`
}

var idReader = vsched.NewIDReader()
var idOnce sync.Once

func installIDs() {
	idOnce.Do(func() { ksuid.SetRand(idReader) })
}

// seqOutcome is the result of running the clients' operations one at a time in
// a given order on the real code: the sequential specification.
type seqOutcome struct {
	Order   []int    // client index per step
	Results []string // per step
	States  []string // contents canon after each step (index 0 = initial)
}

func interleavings(counts []int) [][]int {
	var out [][]int
	var cur []int
	left := append([]int(nil), counts...)
	var rec func()
	rec = func() {
		done := true
		for c, n := range left {
			if n == 0 {
				continue
			}
			done = false
			left[c]--
			cur = append(cur, c)
			rec()
			cur = cur[:len(cur)-1]
			left[c]++
		}
		if done {
			out = append(out, append([]int(nil), cur...))
		}
	}
	rec()
	return out
}

var (
	notFoundRe = regexp.MustCompile(`not found|no such|does not exist|non-existent|not exist`)
	existsRe   = regexp.MustCompile(`already exists|exists`)
	// Errors by which an operation says "I lost a race, nothing was done".
	abortRe = regexp.MustCompile(`operated on during removal|renamed during removal|renamed during rename|exceeded max update attempts|unavailable after \d+ attempts|constraint failed|write conflict`)
)

// resultClass maps an operation's outcome to the class compared between the
// concurrent and the sequential runs: ok, or the kind of failure.
func resultClass(res string, err error) string {
	if err == nil {
		if strings.HasPrefix(res, "Q:") {
			return "ok " + res // a query's result is what it returned
		}
		return "ok"
	}
	s := err.Error()
	switch {
	case abortRe.MatchString(s):
		return "abort"
	case notFoundRe.MatchString(s):
		return "err:notfound"
	case existsRe.MatchString(s):
		return "err:exists"
	}
	return "err: " + errClass(err)
}

// runSequential runs one order on a clone of base, each client with its own
// handle (opened up-front, as in the concurrent runs).
func runSequential(t *testing.T, ctx context.Context, base *vstore.Store, sc concScenario, order []int) seqOutcome {
	out := seqOutcome{Order: order}
	bubble(t, func() {
		idReader.Reset()
		rand.Seed(1)
		st := base.Clone()
		handles := make([]*lk.Lake, len(sc.Clients))
		for i := range sc.Clients {
			vsched.SetCurrent(i)
			l, err := lk.Open(ctx, lk.NewEngine(st, fmt.Sprintf("c%d", i), nil))
			if err != nil {
				t.Fatalf("%s: open: %v", sc.Name, err)
			}
			handles[i] = l
			if i < len(sc.Prelude) {
				for _, op := range sc.Prelude[i] {
					if _, err := l.Apply(ctx, op); err != nil {
						t.Fatalf("%s: prelude %s: %v", sc.Name, op, err)
					}
				}
			}
		}
		vsched.SetCurrent(-2)
		c, err := coldContents(ctx, st)
		if err != nil {
			t.Fatalf("%s: initial contents: %v", sc.Name, err)
		}
		out.States = append(out.States, c.Canon())
		next := make([]int, len(sc.Clients))
		for _, ci := range order {
			op := sc.Clients[ci][next[ci]]
			next[ci]++
			vsched.SetCurrent(ci)
			res, err := handles[ci].Apply(ctx, op)
			out.Results = append(out.Results, resultClass(res, err))
			vsched.SetCurrent(-2)
			c, err := coldContents(ctx, st.Clone())
			if err != nil {
				out.States = append(out.States, "UNREADABLE: "+errClass(err))
			} else {
				out.States = append(out.States, c.Canon())
			}
		}
	})
	return out
}

type concResult struct {
	Scenario    concScenario
	Execs       int
	Complete    int
	States      int
	Transitions int
	Pruned      int
	MaxDepth    int
	CapHit      bool
	Diverged    []string
	Images      int
	Outcomes    map[string]int // distinct (results, final) outcomes
	Violations  []concViolation
	SeqOrders   int
	Sample      []string
	// executions in which some operation failed for a reason no sequential
	// order produces (a lost race reported as e.g. "not found"), but which are
	// explained once that operation is treated as not executed
	UnexplainedFailures int
}

type concViolation struct {
	Signature string
	Detail    map[string]any
}

// exploreScenario explores all schedules of the scenario within its bound and
// checks linearizability against the sequential runs of the real code plus
// readability/atomic visibility of every distinct storage image.
func exploreScenario(t *testing.T, sc concScenario, deadline time.Time, maxExecs int) *concResult {
	ctx := context.Background()
	installIDs()
	res := &concResult{Scenario: sc, Outcomes: map[string]int{}}
	mode := vstore.Atomic
	if sc.Mode == "file" {
		mode = vstore.File
	}
	vsched.SetCurrent(-1)
	idReader.Reset()
	var base *vstore.Store
	bubble(t, func() {
		var err error
		base, err = buildSetup(ctx, mode, sc.Setup, true)
		if err != nil {
			t.Fatalf("%s: setup: %v", sc.Name, err)
		}
	})
	// Make every client operation a pure API-level call: names and indices are
	// resolved against the initial state, as a client that looked them up
	// before issuing the call would have.
	bubble(t, func() {
		l, err := lk.Open(ctx, lk.NewEngine(base.Clone(), "resolve", nil))
		if err != nil {
			t.Fatalf("%s: %v", sc.Name, err)
		}
		resolved := make([][]lk.Op, len(sc.Clients))
		for i, ops := range sc.Clients {
			for _, op := range ops {
				r, err := l.Resolve(ctx, op)
				if err != nil {
					t.Fatalf("%s: resolve %s: %v", sc.Name, op, err)
				}
				resolved[i] = append(resolved[i], r)
			}
		}
		sc.Clients = resolved
	})
	// Sequential specification: for every subset of the operations (an
	// operation that aborts because it lost a race counts as not executed) and
	// every order consistent with program order, the real code run one
	// operation at a time.
	type opRef struct{ c, k int }
	var flat []opRef
	for i, c := range sc.Clients {
		for k := range c {
			flat = append(flat, opRef{i, k})
		}
	}
	seqsByMask := map[int][]seqOutcome{}
	subScenario := func(mask int) (concScenario, [][]int) {
		sub := sc
		sub.Clients = make([][]lk.Op, len(sc.Clients))
		idx := make([][]int, len(sc.Clients)) // sub position → original k
		for b, r := range flat {
			if mask&(1<<b) != 0 {
				sub.Clients[r.c] = append(sub.Clients[r.c], sc.Clients[r.c][r.k])
				idx[r.c] = append(idx[r.c], r.k)
			}
		}
		return sub, idx
	}
	allowedStates := map[string]bool{}
	full := 1<<len(flat) - 1
	for mask := 0; mask <= full; mask++ {
		sub, _ := subScenario(mask)
		counts := make([]int, len(sub.Clients))
		for i, c := range sub.Clients {
			counts[i] = len(c)
		}
		for _, order := range interleavings(counts) {
			o := runSequential(t, ctx, base, sub, order)
			seqsByMask[mask] = append(seqsByMask[mask], o)
			for _, s := range o.States {
				allowedStates[s] = true
			}
		}
	}
	seqs := seqsByMask[full]
	res.SeqOrders = len(seqs)
	images := map[uint64]*vstore.Store{}
	const maxImages = 4000
	names := make([]string, len(sc.Clients))
	for i := range names {
		names[i] = fmt.Sprintf("c%d", i)
	}
	ex := &vsched.Explorer{Bound: sc.Bound, Deadline: deadline, MaxExecs: maxExecs}
	var finalCanon string
	var finalErr error
	ex.RunOne = func(prefix []int, expect []vsched.Point, visit func(uint64, int) bool) *vsched.Exec {
		var x *vsched.Exec
		bubble(t, func() {
			idReader.Reset()
			rand.Seed(1)
			st := base.Clone()
			s := vsched.NewSched(names)
			engines := make([]*vstore.Engine, len(sc.Clients))
			clients := make([]vsched.Client, len(sc.Clients))
			for i := range sc.Clients {
				i := i
				vsched.SetCurrent(i)
				engines[i] = lk.NewEngine(st, names[i], nil)
				l, err := lk.Open(ctx, engines[i])
				if err != nil {
					t.Fatalf("%s: open: %v", sc.Name, err)
				}
				if i < len(sc.Prelude) {
					for _, op := range sc.Prelude[i] {
						if _, err := l.Apply(ctx, op); err != nil {
							t.Fatalf("%s: prelude %s: %v", sc.Name, op, err)
						}
					}
				}
				engines[i].Hook = s.Hook()
				clients[i].Name = names[i]
				for _, op := range sc.Clients[i] {
					op := op
					clients[i].Desc = append(clients[i].Desc, op.String())
					clients[i].Ops = append(clients[i].Ops, func() string {
						r, err := l.Apply(ctx, op)
						return resultClass(r, err)
					})
				}
			}
			x = vsched.Run(s, clients, vsched.Options{
				Prefix: prefix, Expect: expect, Visit: visit,
				StateKey: st.Hash,
				OnState: func() {
					if len(images) < maxImages {
						h := st.Hash()
						if _, ok := images[h]; !ok {
							images[h] = st.Clone()
						}
					}
				},
				AbortAll: func() {
					for _, e := range engines {
						e.Crash()
					}
				},
			})
			if x.FinalDone && !x.Pruned {
				vsched.SetCurrent(-2)
				h := st.Hash()
				if _, ok := images[h]; !ok && len(images) < maxImages {
					images[h] = st.Clone()
				}
				c, err := coldContents(ctx, st.Clone())
				finalErr = err
				if err == nil {
					finalCanon = c.Canon()
				}
			}
		})
		return x
	}
	ex.Check = func(x *vsched.Exec, choices []int) {
		// per-client results in program order
		results := make([][]string, len(sc.Clients))
		sort.Slice(x.Ops, func(a, b int) bool {
			if x.Ops[a].Client != x.Ops[b].Client {
				return x.Ops[a].Client < x.Ops[b].Client
			}
			return x.Ops[a].Index < x.Ops[b].Index
		})
		type iv struct{ call, ret int }
		ivs := make([][]iv, len(sc.Clients))
		for _, o := range x.Ops {
			results[o.Client] = append(results[o.Client], o.Result)
			ivs[o.Client] = append(ivs[o.Client], iv{o.Call, o.Ret})
		}
		final := finalCanon
		if finalErr != nil {
			final = "UNREADABLE: " + errClass(finalErr)
		}
		okey := fmt.Sprint(results) + " => " + final
		res.Outcomes[okey]++
		if len(res.Sample) < 3 {
			var sch []string
			for _, p := range x.Points {
				sch = append(sch, pathClass(p.Enabled[p.Chosen]))
			}
			res.Sample = append(res.Sample, fmt.Sprintf("results=%v schedule=%s", results, strings.Join(sch, " → ")))
		}
		// Search a linearization.  Operations that reported a lost race
		// ("abort") must have left no trace: they are removed and the others
		// must be explained by a sequential run without them.
		tryMask := func(mask int) bool {
			_, subIdx := subScenario(mask)
			for _, so := range seqsByMask[mask] {
				if so.States[len(so.States)-1] != final {
					continue
				}
				next := make([]int, len(sc.Clients))
				match := true
				var placed []opRef
				for step, ci := range so.Order {
					k := subIdx[ci][next[ci]]
					next[ci]++
					if so.Results[step] != results[ci][k] {
						match = false
						break
					}
					for _, q := range placed {
						// q precedes (ci,k) in this order: impossible if (ci,k)
						// returned before q was called.
						if ivs[ci][k].ret < ivs[q.c][q.k].call {
							match = false
						}
					}
					placed = append(placed, opRef{ci, k})
				}
				if match {
					return true
				}
			}
			return false
		}
		strict, lenient := 0, 0
		for b, r := range flat {
			if results[r.c][r.k] != "abort" {
				strict |= 1 << b
			}
			if results[r.c][r.k] == "ok" {
				lenient |= 1 << b
			}
		}
		found := tryMask(strict)
		if !found && lenient != strict {
			// An operation that reports failure must leave no visible trace;
			// the property does not say which failures are legitimate.  A failed
			// operation that no sequential order explains is counted, not flagged,
			// provided the execution is explained without it.
			if tryMask(lenient) {
				found = true
				res.UnexplainedFailures++
			}
		}
		if !found {
			var sch []string
			for _, p := range x.Points {
				sch = append(sch, p.Enabled[p.Chosen])
			}
			kind := "not-linearizable"
			if finalErr != nil {
				kind = "final-state-unreadable"
			}
			sig := fmt.Sprintf("scenario=%s mode=%s symptom=%s results=%v", sc.Name, sc.Mode, kind, results)
			res.Violations = append(res.Violations, concViolation{sig, map[string]any{
				"scenario": sc, "choices": choices, "schedule": sch, "results": results, "final": final,
				"ops": x.Ops, "sequential_outcomes": seqSummaries(seqs),
			}})
		}
	}
	ex.Explore()
	res.Execs, res.Complete, res.States, res.Transitions, res.Pruned = ex.Execs, ex.Complete, ex.States, ex.Transitions, ex.Pruned
	res.MaxDepth, res.CapHit, res.Diverged = ex.MaxDepth, ex.CapHit, ex.Diverged
	for _, d := range ex.Deadlocks {
		res.Violations = append(res.Violations, concViolation{fmt.Sprintf("scenario=%s mode=%s symptom=deadlock", sc.Name, sc.Mode), map[string]any{"scenario": sc, "choices": d}})
	}
	for _, d := range ex.Livelocks {
		res.Violations = append(res.Violations, concViolation{fmt.Sprintf("scenario=%s mode=%s symptom=livelock-step-cap", sc.Name, sc.Mode), map[string]any{"scenario": sc, "choices": d}})
	}
	// Every distinct storage image: readable from a cold handle and showing
	// only states the sequential runs can show (no partial operation visible).
	res.Images = len(images)
	hashes := make([]uint64, 0, len(images))
	for h := range images {
		hashes = append(hashes, h)
	}
	sort.Slice(hashes, func(a, b int) bool { return hashes[a] < hashes[b] })
	for _, h := range hashes {
		img := images[h]
		var canon string
		var err error
		bubble(t, func() {
			vsched.SetCurrent(-2)
			var c lk.Contents
			c, err = coldContents(ctx, img)
			if err == nil {
				canon = c.Canon()
			}
		})
		if err != nil {
			res.Violations = append(res.Violations, concViolation{
				fmt.Sprintf("scenario=%s mode=%s symptom=intermediate-state-unreadable: %s", sc.Name, sc.Mode, symClass(errClass(err))),
				map[string]any{"scenario": sc, "error": err.Error()}})
		} else if !allowedStates[canon] {
			res.Violations = append(res.Violations, concViolation{
				fmt.Sprintf("scenario=%s mode=%s symptom=intermediate-state-not-sequentially-reachable", sc.Name, sc.Mode),
				map[string]any{"scenario": sc, "visible": canon, "allowed": keys(allowedStates)}})
		}
	}
	return res
}

func keys(m map[string]bool) []string {
	var out []string
	for k := range m {
		out = append(out, k)
	}
	sort.Strings(out)
	return out
}

func seqSummaries(seqs []seqOutcome) []string {
	var out []string
	for _, s := range seqs {
		out = append(out, fmt.Sprintf("order=%v results=%v final=%s", s.Order, s.Results, s.States[len(s.States)-1]))
	}
	return out
}
