//go:debug randseednop=0

package checks

import (
	"fmt"
	"os"
	"testing"

	"verif/vstore"
)

var fileSemTrace []string

func TestMain(m *testing.M) {
	sem, trace, err := vstore.ProbeFileSystem()
	if err != nil {
		fmt.Fprintln(os.Stderr, "HARNESS-ERROR: cannot probe storage.FileSystem:", err)
		os.Exit(2)
	}
	vstore.DefaultFileSem = sem
	fileSemTrace = trace
	os.Exit(m.Run())
}
