package checks

import (
	"context"
	"fmt"
	"os"
	"path/filepath"
	"regexp"
	"sort"
	"strings"
	"sync"
	"testing"
	"time"

	zed "github.com/brimdata/super"
	"github.com/brimdata/super/compiler"
	"github.com/brimdata/super/compiler/data"
	"github.com/brimdata/super/order"
	"github.com/brimdata/super/pkg/field"
	"github.com/brimdata/super/runtime"
	"github.com/brimdata/super/zio"
	"github.com/brimdata/super/zio/anyio"
	"github.com/brimdata/super/zio/zsonio"
	"github.com/brimdata/super/ztest"

	"verif/lk"
	"verif/rep"
	"verif/vstore"
)

// ---- C07: the optimizer preserves program meaning ---------------------------------

// streamQuery compiles src for a reader input and runs it with or without the
// optimizer; sortKey (optional) is the declared order of the input.
// streamQuery runs the query under a watchdog: a query that has not finished
// after 20 s of real time is reported as hung (its goroutines are abandoned).
func streamQuery(ctx context.Context, src string, readers func(*zed.Context) []zio.Reader, optimize bool, sortKey *order.SortKey) ([]string, error) {
	type result struct {
		vals []string
		err  error
	}
	ch := make(chan result, 1)
	cctx, cancel := context.WithCancel(ctx)
	defer cancel()
	go func() {
		v, err := streamQuery1(cctx, src, readers, optimize, sortKey)
		ch <- result{v, err}
	}()
	select {
	case r := <-ch:
		return r.vals, r.err
	case <-time.After(hangLimit(ctx)):
		cancel()
		if !hangConfirming(ctx) && !hangAlreadyConfirmed(src, optimize) {
			// Not believed yet: a loaded machine can be this slow.  Run it once more on
			// its own with six times the limit; only a second timeout is a hang.
			return streamQuery(context.WithValue(ctx, hangKey{}, true), src, readers, optimize, sortKey)
		}
		hangRemember(src, optimize)
		return nil, errHang
	}
}

var errHang = fmt.Errorf("HANG: query did not finish within 20s, nor within 120s when run again")

type hangKey struct{}

func hangConfirming(ctx context.Context) bool { return ctx.Value(hangKey{}) != nil }

// Once a hang has been confirmed for a plan feature (a fork feeding a join, a fork feeding a merge, anything
// else; optimizer on or off), later programs with the same feature are believed after the first limit: the
// recorded fork deadlocks would otherwise cost 140 s each time they occur.
var hangConfirmed sync.Map

func hangShape(src string, optimize bool) string {
	feature := "other"
	switch {
	case strings.Contains(src, "join"):
		feature = "fork-feeding-join"
	case strings.Contains(src, "merge"):
		feature = "fork-feeding-merge"
	}
	return fmt.Sprint(feature, optimize)
}

func hangAlreadyConfirmed(src string, optimize bool) bool {
	_, ok := hangConfirmed.Load(hangShape(src, optimize))
	return ok
}

func hangRemember(src string, optimize bool) { hangConfirmed.Store(hangShape(src, optimize), true) }

// hangLimit is the real-time limit after which a query is suspected to hang
// (20 s), or believed to (another 120 s on the confirming run).
func hangLimit(ctx context.Context) time.Duration {
	if hangConfirming(ctx) {
		return 120 * time.Second
	}
	return 20 * time.Second
}

func streamQuery1(ctx context.Context, src string, readers func(*zed.Context) []zio.Reader, optimize bool, sortKey *order.SortKey) (vals []string, err error) {
	defer func() {
		if p := recover(); p != nil {
			err = fmt.Errorf("PANIC: %v", p)
		}
	}()
	seq, _, err := compiler.Parse(src)
	if err != nil {
		return nil, err
	}
	zctx := zed.NewContext()
	rctx := runtime.NewContext(ctx, zctx)
	defer rctx.Cancel()
	job, err := compiler.NewJob(rctx, seq, data.NewSource(nil, nil), nil)
	if err != nil {
		return nil, err
	}
	if sortKey != nil {
		if scan, ok := job.DefaultScan(); ok {
			scan.SortKeys = order.SortKeys{*sortKey}
		}
	}
	if optimize {
		if err := job.Optimize(); err != nil {
			return nil, err
		}
	}
	if err := job.Build(readers(zctx)...); err != nil {
		return nil, err
	}
	p := job.Puller()
	if p == nil {
		return nil, nil
	}
	defer p.Pull(true)
	return lk.Drain(p)
}

type c07Op struct {
	text      string
	ordered   bool // preserves (or defines) the order of its input
	unordered bool // output order is not defined (aggregations, forks)
}

func c07Alphabet() []c07Op {
	o := func(s string) c07Op { return c07Op{text: s, ordered: true} }
	u := func(s string) c07Op { return c07Op{text: s, unordered: true} }
	return []c07Op{
		o(`where a==1`), o(`where k>1`), o(`where k>=2 and a==1`), o(`where s=="x" or a==2`), o(`search x`), o(`where k>1 or not (a==1)`),
		o(`cut k,a`), o(`cut k`), o(`drop a`), o(`put a:=k+1`), o(`put k:=a`), o(`cut k:=a`), o(`cut k:=a,s`), o(`cut x:=k,a`), o(`put n:=s`), o(`rename x:=k`), o(`yield {k,a}`), o(`yield k`),
		o(`sort k`), o(`sort -r k`), o(`sort a,k`), o(`sort k desc`), o(`sort -nulls first k`),
		o(`head 2`), o(`tail 2`), o(`uniq`), o(`fuse`), o(`pass`),
		u(`count()`), u(`summarize count() by k`), u(`summarize s:=sum(a) by k`), u(`summarize c:=count() by k with -limit 1`), u(`summarize m:=max(a),n:=min(a) by s`), u(`summarize collect(a) by k`),
		u(`fork (=> where a==1 => where a==2)`), u(`fork (=> count() => sum(a))`),
		o(`switch ( case a==1 => put b:=1 case a==2 => put b:=2 default => pass ) | sort this`),
		u(`fork (=> where a==1 => where a!=1) | merge k`), // ordered by k, ties between parents undefined
		o(`over l => ( yield this+1 )`),
		o(`fork (=> where a==1 | put side:="L" => where a!=1 | put side:="R") | inner join on k=k rs:=side | sort this`),
	}
}

func c07Long() string {
	var b strings.Builder
	for i := 0; i < 250; i++ {
		fmt.Fprintf(&b, "{k:%d,a:%d,s:%q}\n", i, i%7, []string{"x", "y", "z"}[i%3])
	}
	return b.String()
}

type c07Input struct {
	name    string
	text    string
	sortKey *order.SortKey
}

func c07Inputs() []c07Input {
	asc := order.NewSortKey(order.Asc, field.Path{"k"})
	desc := order.NewSortKey(order.Desc, field.Path{"k"})
	return []c07Input{
		{"plain", `{k:1,a:1,s:"x"} {k:2,a:2,s:"y"} {k:2,a:1,s:"x"} {k:3,a:null(int64),s:"z"} {k:1,a:2,s:"x",l:[1,2]}`, nil},
		{"heterogeneous", `{a:1} {k:"s",a:2} {k:1,a:3,l:[1,2]} {k:null(int64)} 5 {k:1.5,a:1,s:"x"} {k:1,a:1,s:"x"} {k:1,a:1,s:"x"}`, nil},
		{"declared k asc", `{k:1,a:2,s:"x"} {k:1,a:1,s:"y"} {k:2,a:1,s:"x"} {k:3,a:3,s:"z",l:[3]} {k:null(int64),a:4,s:"x"} {a:1,s:"x"}`, &asc},
		{"declared k desc", `{a:1,s:"x"} {k:null(int64),a:4,s:"x"} {k:3,a:3,s:"z",l:[3]} {k:2,a:1,s:"x"} {k:1,a:2,s:"x"} {k:1,a:1,s:"y"}`, &desc},
		// more than two batches of the stream reader, so that streaming operators that
		// release results as their (assumed) sorted input advances do so mid-stream
		{"declared k asc, 250 values", c07Long(), &asc},
	}
}

func TestC07(t *testing.T) {
	run := rep.Start("C07", "translation_validation")
	defer run.Finish(t)
	ctx := context.Background()
	deadline := rep.Deadline(4*time.Minute, 30*time.Minute)
	var mu sync.Mutex
	report := func(sig string, d map[string]any) {
		mu.Lock()
		run.Violation(sig, d)
		mu.Unlock()
	}
	alpha := c07Alphabet()
	// programs: all pipelines up to length 2 (3 in thorough; quick adds length 3 over a sub-alphabet)
	type prog struct {
		ops []int
	}
	var progs []prog
	maxLen := 2
	if rep.Thorough() {
		maxLen = 3
	}
	var rec func(prefix []int, alphabet []int, limit int)
	rec = func(prefix []int, alphabet []int, limit int) {
		if len(prefix) > 0 {
			progs = append(progs, prog{append([]int(nil), prefix...)})
		}
		if len(prefix) == limit {
			return
		}
		for _, a := range alphabet {
			// an operator that needs a defined input order anywhere after one that leaves it
			// undefined (aggregation, fork, merge ties) is under-determined
			undefined := false
			for _, b := range prefix {
				if alpha[b].unordered {
					undefined = true
				}
			}
			if undefined {
				t := alpha[a].text
				if strings.HasPrefix(t, "head") || strings.HasPrefix(t, "tail") || strings.HasPrefix(t, "uniq") || strings.Contains(t, "collect") || strings.Contains(t, "merge") || strings.HasPrefix(t, "fuse") {
					continue
				}
			}
			rec(append(prefix, a), alphabet, limit)
		}
	}
	all := make([]int, len(alpha))
	for i := range all {
		all[i] = i
	}
	rec(nil, all, maxLen)
	if !rep.Thorough() {
		sub := []int{1, 2, 6, 9, 10, 15, 16, 20, 26, 27, 28, 34}
		var extra []prog
		saved := progs
		progs = nil
		rec(nil, sub, 3)
		for _, p := range progs {
			if len(p.ops) == 3 {
				extra = append(extra, p)
			}
		}
		progs = append(saved, extra...)
	}
	inputs := c07Inputs()
	var nprogs, disagreements int64
	past := false
	parallel(len(progs), func(pi int) {
		if time.Now().After(deadline) {
			mu.Lock()
			past = true
			mu.Unlock()
			return
		}
		p := progs[pi]
		var parts []string
		orderDefined := true
		for _, a := range p.ops {
			parts = append(parts, alpha[a].text)
			if alpha[a].unordered {
				orderDefined = false
			} else if strings.HasPrefix(alpha[a].text, "sort") && !orderDefined {
				// a sort after an unordered operator defines the order only up to ties; keep multiset
			}
		}
		src := strings.Join(parts, " | ")
		for _, in := range inputs {
			if strings.Contains(src, "-limit") && in.name != "plain" {
				// the spilling group-by's recorded defect (C10: null vs missing keys)
				// depends on input order; keep it out of the optimizer comparison
				continue
			}
			readers := func(zctx *zed.Context) []zio.Reader {
				return []zio.Reader{zsonio.NewReader(zctx, strings.NewReader(in.text))}
			}
			raw, err1 := streamQuery(ctx, src, readers, false, in.sortKey)
			opt, err2 := streamQuery(ctx, src, readers, true, in.sortKey)
			mu.Lock()
			nprogs++
			run.Eval(src)
			mu.Unlock()
			c07Compare(report, "stream", src, in.name, raw, opt, err1, err2, orderDefined, &disagreements, &mu)
		}
	})
	run.Sample(map[string]any{"part": "grammar programs on streams", "programs": len(progs), "inputs": len(inputs), "example": func() string {
		var parts []string
		for _, a := range progs[len(progs)/2].ops {
			parts = append(parts, alpha[a].text)
		}
		return strings.Join(parts, " | ")
	}()})
	// ---- lake pool scans -------------------------------------------------------------
	var lakeProgs []prog
	progsSaved := progs
	progs = nil
	rec(nil, all, 2)
	for _, p := range progs {
		limited := false
		for _, a := range p.ops {
			t := alpha[a].text
			if strings.Contains(t, "-limit") {
				limited = true // the spilling group-by's known defect (C10) depends on input order; not an optimizer matter
			}
			if strings.HasPrefix(t, "head") || strings.HasPrefix(t, "tail") || strings.HasPrefix(t, "uniq") || strings.Contains(t, "collect") || strings.Contains(t, "merge") || strings.HasPrefix(t, "fuse") {
				limited = true // the order of equal keys in a pool scan is not defined by the program
			}
		}
		if !limited {
			lakeProgs = append(lakeProgs, p)
		}
	}
	progs = progsSaved
	// each part has its own wall-clock budget so that a slow machine cannot starve the later parts
	lakeDeadline := rep.Deadline(4*time.Minute, 30*time.Minute)
	var lakeCases int64
	type lakeLayout struct {
		keySpec string
		thresh  int64
	}
	// one value per object (threshold 1), and one object per load spanning a key range
	for _, lay := range []lakeLayout{{"k:desc", 0}, {"k:asc", 0}, {"k:desc", 1}, {"k:asc", 1}} {
		keySpec := lay.keySpec
		if lay.thresh == 0 {
			keySpec += " object-per-load"
		}
		st, err := buildSetup(ctx, vstore.Atomic, []lk.Op{{Kind: "createpool", Pool: "p", Key: lay.keySpec, Thresh: lay.thresh, Stride: 1},
			ld("p", "main", inputs[0].text), ld("p", "main", inputs[1].text), ld("p", "main", `{k:6,a:1,s:"x"} {k:9,a:2,s:"y"} {k:7,a:1,s:"z"}`)}, true)
		if err != nil {
			t.Fatal(err)
		}
		parallel(len(lakeProgs), func(pi int) {
			if time.Now().After(lakeDeadline) {
				mu.Lock()
				past = true
				mu.Unlock()
				return
			}
			var parts []string
			for _, a := range lakeProgs[pi].ops {
				parts = append(parts, alpha[a].text)
			}
			src := "from p | " + strings.Join(parts, " | ")
			l, err := lk.Open(ctx, lk.NewEngine(st, "q", nil))
			if err != nil {
				t.Error(err)
				return
			}
			rawV, err1 := lakeQueryVals(ctx, l, src, false, 0)
			optV, err2 := lakeQueryVals(ctx, l, src, true, 1)
			mu.Lock()
			lakeCases++
			run.Eval("lake:" + keySpec + ":" + src)
			mu.Unlock()
			c07Compare(report, "lake "+keySpec, src, "pool", formatAll(rawV), formatAll(optV), err1, err2, false, &disagreements, &mu)
		})
	}
	run.Set("lake_cases", lakeCases)
	// ---- the repository's own program corpus ---------------------------------------
	corpusN, corpusSkipped := c07Corpus(t, ctx, run, report, &disagreements, &mu, rep.Deadline(3*time.Minute, 20*time.Minute))
	run.Set("corpus_programs", corpusN)
	run.Set("corpus_skipped_not_compilable_or_no_input", corpusSkipped)
	run.Set("programs", int64(len(progs)+len(lakeProgs)*2)+int64(corpusN))
	run.Set("disagreements_checked", disagreements)
	run.Set("cases_skipped_because_the_unoptimized_plan_hangs", referenceHangs)
	run.Set("evaluations", nprogs+lakeCases+int64(corpusN))
	run.Set("exhaustive", !past)
	run.Set("rule", "programs: every pipeline of length <= 2 (3 in thorough; quick adds all length-3 pipelines over a 12-operator sub-alphabet) over a 40-operator alphabet (filters incl. search, cut (plain and with assignments to and from the key)/drop/put/rename/yield, sorts, head/tail/uniq/fuse/pass, summarize with by / -limit, fork, switch, merge, over, join), skipping operators that need a defined order right after one that leaves it undefined; x 4 stream inputs (plain, heterogeneous shapes with missing/mixed-type keys and a non-record, declared sorted k asc, declared sorted k desc with the input really sorted) and, for length <= 2, pool scans of an asc and a desc pool, each laid out as one value per object and as one object per load (objects spanning key ranges); plus the repository's ztest programs with their own inputs and compiler/parser/valid.zed. Each program is run twice from one analyzed job: Build without Optimize, and Optimize then Build; outputs must be equal as sequences when every operator preserves order, as multisets otherwise; an error on one side only is a disagreement")
	run.Assume("the unoptimized plan (kernel executing the analyzed DAG as is) is the reference semantics")
	run.Assume("programs whose result is legitimately under-determined (head/tail/uniq/collect/merge after an aggregation or fork) are not generated; corpus programs whose two runs both fail are skipped")
}

var referenceHangs int64

var c07UnorderedRe = regexp.MustCompile(`\b(summarize|count|sum|avg|min|max|union|collect|any|fork|switch|join|from|get|over|by|every|dcount|fuse|and|or)\b|\(`)

func c07Compare(report func(string, map[string]any), where, src, input string, raw, opt []string, err1, err2 error, orderDefined bool, disagreements *int64, mu *sync.Mutex) {
	switch {
	case err1 != nil && err2 != nil:
		return
	case err1 == errHang:
		// the reference plan itself does not terminate (fork feeding merge/join
		// without the sorts the optimizer inserts): nothing to compare with
		mu.Lock()
		referenceHangs++
		mu.Unlock()
		return
	case err2 == errHang:
		mu.Lock()
		*disagreements++
		mu.Unlock()
		feature := "other"
		switch {
		case strings.Contains(src, "join"):
			feature = "fork-feeding-join"
		case strings.Contains(src, "merge"):
			feature = "fork-feeding-merge"
		}
		report(fmt.Sprintf("%s symptom=optimized-plan-hangs feature=%s", strings.Fields(where)[0], feature), map[string]any{"where": where, "program": src, "input": input, "unoptimized_output": raw})
		return
	case err1 != nil || err2 != nil:
		mu.Lock()
		*disagreements++
		mu.Unlock()
		report(fmt.Sprintf("%s symptom=only-one-plan-fails program=%q input=%s", strings.Fields(where)[0], src, rep.Short(input, 60)), map[string]any{"ops": c07Shape(src), "where": where, "program": src, "input": input, "unoptimized_error": fmt.Sprint(err1), "optimized_error": fmt.Sprint(err2)})
		return
	}
	same := sameMultiset(raw, opt)
	if same && orderDefined {
		same = strings.Join(raw, "\n") == strings.Join(opt, "\n")
	}
	if !same {
		mu.Lock()
		*disagreements++
		mu.Unlock()
		kind := "different-values"
		if sameMultiset(raw, opt) {
			kind = "different-order"
		}
		if extra, missing := msSub(opt, raw), msSub(raw, opt); len(missing) == 0 && len(extra) > 0 && allErrorValues(extra) {
			// one recorded defect class: merged filters emit an error value where the
			// sequence of filters drops the input value
			report(fmt.Sprintf("%s symptom=optimized-plan-emits-error-values-the-analyzed-plan-drops input=%s", strings.Fields(where)[0], rep.Short(input, 60)), map[string]any{"ops": c07Shape(src), "where": where, "program": src, "input": input, "unoptimized": raw, "optimized": opt})
			return
		}
		report(fmt.Sprintf("%s symptom=optimized-plan-%s program=%q input=%s", strings.Fields(where)[0], kind, src, rep.Short(input, 60)), map[string]any{"ops": c07Shape(src), "where": where, "program": src, "input": input, "unoptimized": raw, "optimized": opt})
	}
}

func allErrorValues(vals []string) bool {
	for _, v := range vals {
		if !strings.HasPrefix(v, "error(") {
			return false
		}
	}
	return true
}

// c07Shape abstracts a program to its operator names.
func c07Shape(src string) string {
	var names []string
	for _, part := range strings.Split(src, " | ") {
		f := strings.Fields(part)
		if len(f) == 0 {
			continue
		}
		n := f[0]
		if n == "summarize" && strings.Contains(part, "-limit") {
			n = "summarize-limit"
		}
		if n == "sort" && len(f) > 1 && strings.HasPrefix(f[1], "-") {
			n = "sort" + f[1]
			if f[1] == "-nulls" {
				n = "sort-nulls-first"
			}
		}
		if n == "sort" && strings.HasSuffix(part, " desc") {
			n = "sort-desc"
		}
		names = append(names, n)
	}
	return strings.Join(names, "|")
}

// c07Corpus runs the ztest programs (zed: + input:) and valid.zed lines.
func c07Corpus(t *testing.T, ctx context.Context, run *rep.Run, report func(string, map[string]any), disagreements *int64, mu *sync.Mutex, deadline time.Time) (n, skipped int) {
	type item struct{ name, zed, input string }
	var items []item
	filepath.WalkDir("/repo", func(path string, d os.DirEntry, err error) error {
		if err != nil || d.IsDir() || !strings.HasSuffix(path, ".yaml") || !strings.Contains(path, "ztests") {
			return nil
		}
		zt, err := ztest.FromYAMLFile(path)
		if err != nil || zt.Zed == "" || zt.Input == "" || zt.InputFlags != "" || zt.Vector {
			return nil
		}
		items = append(items, item{strings.TrimPrefix(path, "/repo/"), zt.Zed, zt.Input})
		return nil
	})
	if b, err := os.ReadFile("/repo/compiler/parser/valid.zed"); err == nil {
		for i, line := range strings.Split(string(b), "\n") {
			if strings.TrimSpace(line) != "" {
				items = append(items, item{fmt.Sprintf("valid.zed:%d", i+1), line, c07Inputs()[1].text + ` {_path:"conn",ts:2020-01-01T00:00:00Z,id:{resp_p:80},addr:1.2.3.4,foo:1,s:"harefoot-raucous"}`})
			}
		}
	}
	sort.Slice(items, func(a, b int) bool { return items[a].name < items[b].name })
	var cnt, skip int
	parallel(len(items), func(i int) {
		if time.Now().After(deadline) {
			return
		}
		it := items[i]
		if strings.Contains(it.zed, "from ") || strings.Contains(it.zed, "get ") || strings.Contains(it.zed, "file ") || strings.Contains(it.zed, "now()") {
			mu.Lock()
			skip++
			mu.Unlock()
			return
		}
		readers := func(zctx *zed.Context) []zio.Reader {
			r, err := anyio.NewReader(zctx, strings.NewReader(it.input), nil)
			if err != nil {
				return []zio.Reader{zsonio.NewReader(zctx, strings.NewReader(""))}
			}
			return []zio.Reader{r}
		}
		raw, err1 := streamQuery(ctx, it.zed, readers, false, nil)
		opt, err2 := streamQuery(ctx, it.zed, readers, true, nil)
		if err1 != nil && err2 != nil {
			mu.Lock()
			skip++
			mu.Unlock()
			return
		}
		mu.Lock()
		cnt++
		run.Eval("corpus:" + it.name)
		mu.Unlock()
		orderDefined := !c07UnorderedRe.MatchString(it.zed)
		c07Compare(report, "corpus", it.zed, it.name, raw, opt, err1, err2, orderDefined, disagreements, mu)
	})
	run.Sample(map[string]any{"part": "repository corpus", "programs_run": cnt, "example": items[len(items)/2].name})
	return cnt, skip
}
