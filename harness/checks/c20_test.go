package checks

import (
	"context"
	"fmt"
	"regexp"
	"sort"
	"strings"
	"testing"

	zed "github.com/brimdata/super"
	fuseop "github.com/brimdata/super/runtime/sam/op/fuse"
	"github.com/brimdata/super/zcode"
	"github.com/brimdata/super/zson"

	"verif/rep"
)

// ---- C20: fuse is uniform, order-preserving and lossless -------------------------

var c20Alphabet = []string{
	`{a:1}`, `{b:"x"}`, `{a:1,b:"x"}`, `{a:"s"}`, `{a:{c:1}}`, `{a:{d:"y"},e:2}`,
	`{l:[1,2]}`, `{l:["a"]}`, `{l:|[1,2]|}`, `{l:["b","a","b"]}`, `{s:|[1]|}`, `{m:|{"k":1}|}`, `{m:|{"k":"v"}|}`,
	`{u:1((int64,string))}`, `{a:1}(=named)`, `{p:80(port=uint16)}`,
	`{a:null(int64)}`, `{a:{c:null(int64)}}`, `{a:null({c:int64})}`, `7`, `"str"`, `null`,
}

var c20IndexRe = regexp.MustCompile(`\[(\d+|\*)\]`)

// c20Unindexed drops element positions from leaf paths (arrays and sets alike).
func c20Unindexed(ls []string) []string {
	out := make([]string, len(ls))
	for i, l := range ls {
		out[i] = c20IndexRe.ReplaceAllString(l, "[]")
	}
	return out
}

// c20SameContainerKinds: both leaf lists use positions ([n]) and set markers ([*]) at the same places.
func c20SameContainerKinds(a, b []string) bool {
	shape := func(ls []string) string {
		var sb strings.Builder
		for _, l := range sortedCopy(ls) {
			p := strings.SplitN(l, "|", 2)[0]
			sb.WriteString(regexp.MustCompile(`\[\d+\]`).ReplaceAllString(p, "[n]"))
			sb.WriteByte(';')
		}
		return sb.String()
	}
	return shape(a) == shape(b)
}

// leaves returns the multiset of non-null primitive leaves of a value as
// "path|type|value" strings, descending through records (field names), arrays
// (index), sets (element, unordered), maps (key), unions (selected member),
// named types and errors.
func leaves(typ zed.Type, b zcode.Bytes, path string, out *[]string) {
	if b == nil {
		return
	}
	switch t := typ.(type) {
	case *zed.TypeNamed:
		leaves(t.Type, b, path, out)
	case *zed.TypeRecord:
		it := b.Iter()
		for _, f := range t.Fields {
			if it.Done() {
				return
			}
			leaves(f.Type, it.Next(), path+"."+f.Name, out)
		}
	case *zed.TypeArray:
		i := 0
		for it := b.Iter(); !it.Done(); i++ {
			leaves(t.Type, it.Next(), fmt.Sprintf("%s[%d]", path, i), out)
		}
	case *zed.TypeSet:
		for it := b.Iter(); !it.Done(); {
			leaves(t.Type, it.Next(), path+"[*]", out)
		}
	case *zed.TypeMap:
		for it := b.Iter(); !it.Done(); {
			k := it.Next()
			key := zson.FormatValue(zed.NewValue(t.KeyType, k))
			if it.Done() {
				return
			}
			leaves(t.ValType, it.Next(), path+"{"+key+"}", out)
		}
	case *zed.TypeUnion:
		m, inner := t.Untag(b)
		leaves(m, inner, path, out)
	case *zed.TypeError:
		leaves(t.Type, b, path+"!", out)
	default:
		*out = append(*out, path+"|"+zson.FormatType(zed.TypeUnder(typ))+"|"+zson.FormatPrimitive(zed.TypeUnder(typ), b))
	}
}

// c20Mix classifies the input by the features the known fuse limitations
// depend on: a map-typed field, top-level records mixed with non-records,
// records only.
func c20Mix(vals []zed.Value) string {
	for _, v := range vals {
		if strings.Contains(zson.FormatType(v.Type()), "|{") {
			return "has-map-field"
		}
	}
	rec, other := false, false
	for _, v := range vals {
		if zed.TypeUnder(v.Type()).Kind() == zed.RecordKind {
			rec = true
		} else if !v.IsNull() || v.Type() != zed.TypeNull {
			other = true
		}
	}
	switch {
	case rec && other:
		return "records-and-non-records"
	case rec:
		// the same field holding a record in one value and something else in another
		kinds := map[string]map[bool]bool{}
		for _, v := range vals {
			if r, ok := zed.TypeUnder(v.Type()).(*zed.TypeRecord); ok {
				for _, f := range r.Fields {
					if kinds[f.Name] == nil {
						kinds[f.Name] = map[bool]bool{}
					}
					kinds[f.Name][zed.TypeUnder(f.Type).Kind() == zed.RecordKind] = true
				}
			}
		}
		for _, k := range kinds {
			if len(k) == 2 {
				return "a-field-is-a-record-in-some-values-only"
			}
		}
		return "records-only"
	}
	return "non-records-only"
}

func leafSet(v zed.Value) []string {
	var out []string
	leaves(v.Type(), v.Bytes(), "", &out)
	sort.Strings(out)
	return out
}

func TestC20(t *testing.T) {
	run := rep.Start("C20", "exploration")
	defer run.Finish(t)
	ctx := context.Background()
	maxLen := 3
	if rep.Thorough() {
		maxLen = 4
	}
	var seqs [][]int
	var rec func(prefix []int)
	rec = func(prefix []int) {
		if len(prefix) > 0 {
			seqs = append(seqs, append([]int(nil), prefix...))
		}
		if len(prefix) == maxLen {
			return
		}
		for a := range c20Alphabet {
			rec(append(prefix, a))
		}
	}
	rec(nil)
	saved := fuseop.MemMaxBytes
	defer func() { fuseop.MemMaxBytes = saved }()
	results := make([][2][]string, len(seqs))
	for li, limit := range []int{saved, 1} {
		fuseop.MemMaxBytes = limit
		lname := []string{"default", "1B"}[li]
		parallel(len(seqs), func(si int) {
			seq := seqs[si]
			var lines []string
			for _, a := range seq {
				lines = append(lines, c20Alphabet[a])
			}
			text := strings.Join(lines, "\n")
			name := strings.Join(lines, " ")
			run.Eval(name)
			fail := func(sym string, d map[string]any) {
				if d == nil {
					d = map[string]any{}
				}
				d["input"] = lines
				d["mem"] = lname
				run.Violation("fuse symptom="+sym, d)
			}
			outVals, err := runQueryOnTextVals(ctx, text, "fuse")
			if err != nil {
				fail("error: "+errClass(err), nil)
				return
			}
			var got []string
			for _, v := range outVals {
				got = append(got, zson.FormatValue(v))
			}
			results[si][li] = got
			if len(got) != len(seq) {
				fail("output-count-differs-from-input-count", map[string]any{"got": got})
				return
			}
			zctx := zed.NewContext()
			var inVals []zed.Value
			for i := range got {
				iv, err := zson.ParseValue(zctx, lines[i])
				if err != nil {
					t.Errorf("harness: %s: %v", lines[i], err)
					return
				}
				inVals = append(inVals, iv.Copy())
			}
			// one type
			for i := 1; i < len(outVals); i++ {
				if outVals[i].Type() != outVals[0].Type() {
					fail("outputs-have-different-types input="+c20Mix(inVals), map[string]any{"got": got})
					return
				}
			}
			// == fuse(this) aggregate
			agg, err := runQueryOnText(ctx, text, "summarize t:=fuse(this) | yield t")
			if err != nil || len(agg) != 1 {
				fail("fuse-aggregate-failed", map[string]any{"error": fmt.Sprint(err), "agg": agg})
				return
			}
			if want := "<" + zson.FormatType(outVals[0].Type()) + ">"; agg[0] != want {
				fail("operator-type-differs-from-fuse()-aggregate input="+c20Mix(inVals), map[string]any{"operator_type": want, "aggregate": agg[0]})
				return
			}
			// leaves: every input leaf present at the same path with the same
			// primitive type and value, in order; nothing else non-null.
			for i := range inVals {
				in, out := leafSet(inVals[i]), leafSet(outVals[i])
				if strings.Join(in, "\n") != strings.Join(out, "\n") && sameMultiset(c20Unindexed(in), c20Unindexed(out)) && !c20SameContainerKinds(in, out) {
					// a set fused with an array becomes an array (or the reverse) with every
					// element kept: positions are not comparable, the elements are
					continue
				}
				if strings.Join(in, "\n") != strings.Join(out, "\n") {
					fail("leaves-not-preserved input="+c20Mix(inVals), map[string]any{"index": i, "input_value": lines[i], "output_value": got[i], "input_leaves": in, "output_leaves": out})
					return
				}
			}
		})
	}
	fuseop.MemMaxBytes = saved
	for si := range seqs {
		a, b := results[si][0], results[si][1]
		if a != nil && b != nil && strings.Join(a, "\n") != strings.Join(b, "\n") {
			var lines []string
			for _, x := range seqs[si] {
				lines = append(lines, c20Alphabet[x])
			}
			run.Violation("fuse symptom=output-differs-between-in-memory-and-spill", map[string]any{"input": lines, "in_memory": a, "spilled": b})
		}
	}
	run.Sample(map[string]any{"alphabet": c20Alphabet, "sequences": len(seqs), "max_length": maxLen})
	run.Set("exhaustive", true)
	run.Set("rule", fmt.Sprintf("all sequences of length <= %d over a %d-value shape alphabet (disjoint / overlapping fields, one field with two primitive types, nested records, arrays/sets/maps of differing element types, a set and arrays (one with repeated, unsorted elements) at the same path, a union-typed field, named record and named primitive, nulls at three depths, non-record values) x fuse.MemMaxBytes in {default, 1 byte}; oracle: one output per input in order, one output type equal to fuse(this), each output's non-null primitive leaves (path, primitive type, value) equal to the input's (where a set was fused into an array or the reverse, the elements as a multiset), identical output with and without spill. distinct = distinct sequences", maxLen, len(c20Alphabet)))
}
