package checks

import (
	"bytes"
	"fmt"
	"strings"
	"sync"
	"testing"
	"time"

	zed "github.com/brimdata/super"
	"github.com/brimdata/super/pkg/field"
	"github.com/brimdata/super/runtime/vam"
	"github.com/brimdata/super/runtime/vcache"
	"github.com/brimdata/super/vng"
	"github.com/brimdata/super/zcode"
	"github.com/brimdata/super/zio/vngio"
	"github.com/brimdata/super/zson"

	"verif/gen"
	"verif/rep"
)

// ---- C03: VNG columnar round trip, both read paths, projections ------------------

func vngWrite(vals []zed.Value) (b []byte, err error) {
	defer func() {
		if p := recover(); p != nil {
			err = fmt.Errorf("PANIC in writer: %v", p)
		}
	}()
	var buf bytes.Buffer
	w := vngio.NewWriter(nopCloser{&buf})
	for _, v := range vals {
		if err := w.Write(v); err != nil {
			return nil, err
		}
	}
	if err := w.Close(); err != nil {
		return nil, err
	}
	return buf.Bytes(), nil
}

func vngReadRows(b []byte) (vals []zed.Value, err error) {
	defer func() {
		if p := recover(); p != nil {
			err = fmt.Errorf("PANIC in row reader: %v", p)
		}
	}()
	r, err := vngio.NewReader(zed.NewContext(), bytes.NewReader(b), nil)
	if err != nil {
		return nil, err
	}
	return readAll(r)
}

func vngReadVectors(b []byte, paths []field.Path) (vals []zed.Value, err error) {
	defer func() {
		if p := recover(); p != nil {
			err = fmt.Errorf("PANIC in vector path: %v", p)
		}
	}()
	o, err := vng.NewObject(bytes.NewReader(b))
	if err != nil {
		return nil, err
	}
	p := vam.NewProjection(zed.NewContext(), vcache.NewObjectFromVNG(o), paths)
	for {
		batch, err := p.Pull(false)
		if err != nil {
			return vals, err
		}
		if batch == nil {
			return vals, nil
		}
		for _, v := range batch.Values() {
			vals = append(vals, v.Copy())
		}
		batch.Unref()
	}
}

// column value generators: the i-th distinct value of a type, as ZSON.
var c03Types = []struct {
	name string
	null string
	gen  func(i int) string
}{
	{"string", "null(string)", func(i int) string { return fmt.Sprintf("%q", fmt.Sprintf("s%d", i)) }},
	{"string-with-empty", "null(string)", func(i int) string {
		if i == 0 {
			return `""`
		}
		return fmt.Sprintf("%q", fmt.Sprintf("s%d", i))
	}},
	{"int64", "null(int64)", func(i int) string { return fmt.Sprint(i*1000 - 5) }},
	{"uint8", "null(uint8)", func(i int) string { return fmt.Sprintf("%d(uint8)", i%256) }},
	{"float64", "null(float64)", func(i int) string { return fmt.Sprintf("%d.5", i) }},
	{"bool", "null(bool)", func(i int) string { return fmt.Sprint(i%2 == 0) }},
	{"bytes", "null(bytes)", func(i int) string {
		if i == 0 {
			return "0x"
		}
		return fmt.Sprintf("0x%04x", i)
	}},
	{"ip", "null(ip)", func(i int) string { return fmt.Sprintf("10.0.%d.%d", i/256, i%256) }},
	{"time", "null(time)", func(i int) string {
		return time.Unix(int64(i)*3600, 0).UTC().Format(time.RFC3339)
	}},
	{"type", "null(type)", func(i int) string { return fmt.Sprintf("<{f%d:int64}>", i) }},
	{"named", "null(port=uint16)", func(i int) string { return fmt.Sprintf("%d(port=uint16)", i) }},
	{"union", "null((int64,string))", func(i int) string {
		if i%2 == 0 {
			return fmt.Sprintf("%d((int64,string))", i)
		}
		return fmt.Sprintf("\"u%d\"((int64,string))", i)
	}},
	{"array", "null([int64])", func(i int) string {
		if i == 0 {
			return "[]([int64])"
		}
		return fmt.Sprintf("[%d,%d]", i, i+1)
	}},
	{"set", "null(|[int64]|)", func(i int) string {
		if i == 0 {
			return "|[]|(|[int64]|)"
		}
		return fmt.Sprintf("|[%d,%d]|", i, i+1)
	}},
	{"map", "null(|{string:int64}|)", func(i int) string {
		if i == 0 {
			return "|{}|(|{string:int64}|)"
		}
		return fmt.Sprintf("|{\"k%d\":%d}|", i, i)
	}},
	{"record", "null({a:int64,b:string})", func(i int) string { return fmt.Sprintf("{a:%d,b:\"r%d\"}", i, i%3) }},
	{"enum", "null(enum(e0,e1,e2))", func(i int) string { return fmt.Sprintf("%%e%d(enum(e0,e1,e2))", i%3) }},
}

var c03NullPatterns = []string{"none", "first", "last", "middle-run", "alternating", "all"}

func isNullAt(pattern string, j, n int) bool {
	switch pattern {
	case "first":
		return j == 0
	case "last":
		return j == n-1
	case "middle-run":
		return j >= n/3 && j < n/3+max(1, n/4)
	case "alternating":
		return j%2 == 1
	case "all":
		return true
	}
	return false
}

func derefPath(v zed.Value, p field.Path) (zed.Value, bool) {
	cur := v
	for _, name := range p {
		if zed.TypeUnder(cur.Type()).Kind() != zed.RecordKind || cur.IsNull() {
			return zed.Value{}, false
		}
		next := cur.Deref(name)
		if next == nil {
			return zed.Value{}, false
		}
		cur = *next
	}
	return cur, true
}

type c03Job struct {
	name  string
	vals  []zed.Value
	paths [][]field.Path
}

var c03JobsOnce sync.Once
var c03JobList []c03Job
var c03UniverseSize int

func c03Jobs() []c03Job {
	c03JobsOnce.Do(func() { c03JobList = c03BuildJobs() })
	return c03JobList
}

func init() {
	isoFamilies["c03"] = &isoFamily{
		N:     func() int { return len(c03Jobs()) },
		Name:  func(i int) string { return c03Jobs()[i].name },
		Class: func(i int) string { return c03Class(c03Jobs()[i].name) + " input=" + c03Features(c03Jobs()[i].vals) },
		Run:   func(i int, c *isoCtx) { c03Run(c03Jobs()[i], c) },
		CrashSig: func(i int, site string) string {
			cls := c03Class(c03Jobs()[i].name) + " input=" + c03Features(c03Jobs()[i].vals)
			return c03VecSig("process-crash", cls, ": "+site)
		},
	}
}

func c03Class(name string) string {
	cls := strings.Fields(name)[0]
	if cls == "column" || cls == "bare" {
		cls = strings.Join(strings.Fields(name)[:2], " ")
		if cls == "bare column" {
			cls = strings.Join(strings.Fields(name)[:3], " ")
		}
	}
	return cls
}

func c03BuildJobs() []c03Job {
	zctx := zed.NewContext()
	type job = c03Job
	var jobs []job
	parse := func(s string) zed.Value {
		v, err := zson.ParseValue(zctx, s)
		if err != nil {
			panic(fmt.Sprintf("harness literal %s: %v", s, err))
		}
		return v.Copy()
	}
	// (1) column scripts
	distincts := []int{1, 2, 255, 256, 257}
	lengths := []int{0, 1, 2, 257, 600}
	if !rep.Thorough() {
		distincts = []int{1, 2, 256, 257}
		lengths = []int{0, 1, 2, 257}
	}
	for _, ty := range c03Types {
		for _, d := range distincts {
			for _, n := range lengths {
				if d > n && !(n <= 2 && d <= 2) {
					continue
				}
				for _, np := range c03NullPatterns {
					if n == 0 && np != "none" {
						continue
					}
					if !rep.Thorough() && (np == "first" || np == "last") && n > 2 && d != 256 {
						continue
					}
					if !rep.Thorough() && ty.name == "enum" && !(n == 257 && d == 2 && (np == "none" || np == "all")) && n > 2 {
						continue // every enum script kills its child process: keep three in quick
					}
					vals := make([]zed.Value, 0, n)
					for j := 0; j < n; j++ {
						f := ty.gen(j % d)
						if isNullAt(np, j, n) {
							f = ty.null
						}
						vals = append(vals, parse(fmt.Sprintf("{f:%s,g:%d}", f, j)))
					}
					jobs = append(jobs, job{name: fmt.Sprintf("column type=%s distinct=%d len=%d nulls=%s", ty.name, d, n, np), vals: vals,
						paths: [][]field.Path{{{"f"}}, {{"g"}}, {{"zzz"}}}})
				}
			}
		}
		// bare (non-record) column of the type
		var bare []zed.Value
		for j := 0; j < 5; j++ {
			bare = append(bare, parse(ty.gen(j%3)))
		}
		bare = append(bare, parse(ty.null))
		jobs = append(jobs, job{name: "bare column type=" + ty.name, vals: bare})
	}
	// (1b) nulls at two levels: records that are null as a whole at some rows and whose field is
	// null at others, over more than one 64-row word of the null bitmaps; as top-level values
	// and as a field
	recNulls := map[string]func(i, n int) bool{
		"none":     func(i, n int) bool { return false },
		"first":    func(i, n int) bool { return i == 0 },
		"at-70":    func(i, n int) bool { return i == 70 },
		"last":     func(i, n int) bool { return i == n-1 },
		"every-50": func(i, n int) bool { return i%50 == 49 },
	}
	fieldNulls := map[string]func(i int) bool{
		"none":    func(i int) bool { return false },
		"some":    func(i int) bool { return i == 10 || i == 20 || i == 100 || i == 170 },
		"every-3": func(i int) bool { return i%3 == 1 },
	}
	for _, n := range []int{65, 130, 200} {
		for _, rn := range []string{"none", "first", "at-70", "last", "every-50"} {
			for _, fn := range []string{"none", "some", "every-3"} {
				if rn == "none" && fn == "none" {
					continue
				}
				if !rep.Thorough() && n == 130 {
					continue
				}
				var top, nested []zed.Value
				for i := 0; i < n; i++ {
					a := fmt.Sprint(1000 + i)
					if fieldNulls[fn](i) {
						a = "null(int64)"
					}
					r := fmt.Sprintf(`{a:%s,b:"s%d"}`, a, i)
					if recNulls[rn](i, n) {
						r = "null({a:int64,b:string})"
					}
					top = append(top, parse(r))
					nested = append(nested, parse(fmt.Sprintf("{r:%s,g:%d}", r, i)))
				}
				jobs = append(jobs, job{name: fmt.Sprintf("nested nulls top-level len=%d record-nulls=%s field-nulls=%s", n, rn, fn), vals: top, paths: [][]field.Path{{{"a"}}, {{"b"}}}},
					job{name: fmt.Sprintf("nested nulls field len=%d record-nulls=%s field-nulls=%s", n, rn, fn), vals: nested, paths: [][]field.Path{{{"r"}}, {{"r", "a"}}, {{"g"}}}})
			}
		}
	}
	// (2) interleavings of top-level types: all sequences of length <= 4 over 4 shapes
	shapes := []func(i int) string{
		func(i int) string { return fmt.Sprintf("{a:%d,b:{c:\"x%d\",d:%d}}", i, i, i*2) },
		func(i int) string { return fmt.Sprintf("{a:\"s%d\",e:[%d]}", i, i) },
		func(i int) string { return fmt.Sprintf("%d", 100+i) },
		func(i int) string { return fmt.Sprintf("{b:{c:%d}}", i) },
	}
	projSets := [][]field.Path{{{"a"}}, {{"b"}}, {{"b", "c"}}, {{"b", "c"}, {"b", "d"}}, {{"a"}, {"b", "d"}}, {{"zzz"}}, {{"b", "zzz"}}, {{"e"}}}
	maxLen := 4
	var rec func(prefix []int)
	rec = func(prefix []int) {
		if len(prefix) > 0 {
			var vals []zed.Value
			var nm []string
			for i, s := range prefix {
				vals = append(vals, parse(shapes[s](i)))
				nm = append(nm, fmt.Sprint(s))
			}
			jobs = append(jobs, job{name: "interleaving shapes=" + strings.Join(nm, ","), vals: vals, paths: projSets})
		}
		if len(prefix) == maxLen {
			return
		}
		for s := range shapes {
			rec(append(prefix[:len(prefix):len(prefix)], s))
		}
	}
	rec(nil)
	// (3) the boundary universe: every value alone, and all together
	u := universe(zctx, false)
	var all []zed.Value
	for _, v := range u {
		if strings.HasPrefix(v.Name, "builder:missing") || strings.HasPrefix(v.Name, "builder:quiet") {
			continue
		}
		jobs = append(jobs, job{name: "single " + v.Name, vals: []zed.Value{v.Val}})
		all = append(all, v.Val)
	}
	// all together, split by the features the known vector-path defects depend on
	byFeature := map[string][]zed.Value{}
	for _, v := range all {
		f := c03Features([]zed.Value{v})
		byFeature[f] = append(byFeature[f], v)
	}
	for _, f := range []string{"plain", "enum", "null-union-value"} {
		vs := byFeature[f]
		jobs = append(jobs, job{name: "whole universe (" + f + " values)", vals: vs}, job{name: "whole universe twice (" + f + " values)", vals: append(append([]zed.Value(nil), vs...), vs...)})
	}

	c03UniverseSize = len(u)
	return jobs
}

// c03Features names the structural features of the input that the known
// vector-path defects depend on, so that signatures stay specific.
func c03Features(vals []zed.Value) string {
	var nullUnion, enum bool
	var hasUnion func(t zed.Type) bool
	hasUnion = func(t zed.Type) bool {
		switch t := t.(type) {
		case *zed.TypeNamed:
			return hasUnion(t.Type)
		case *zed.TypeUnion:
			return true
		case *zed.TypeRecord:
			for _, f := range t.Fields {
				if hasUnion(f.Type) {
					return true
				}
			}
		case *zed.TypeArray:
			return hasUnion(t.Type)
		case *zed.TypeSet:
			return hasUnion(t.Type)
		case *zed.TypeMap:
			return hasUnion(t.KeyType) || hasUnion(t.ValType)
		case *zed.TypeError:
			return hasUnion(t.Type)
		}
		return false
	}
	var walk func(t zed.Type, b zcode.Bytes)
	walk = func(t zed.Type, b zcode.Bytes) {
		if b == nil && hasUnion(t) {
			// a null container nulls the union-typed columns below it
			nullUnion = true
			return
		}
		switch t := t.(type) {
		case *zed.TypeNamed:
			walk(t.Type, b)
		case *zed.TypeEnum:
			enum = true
		case *zed.TypeUnion:
			if b == nil {
				nullUnion = true
				return
			}
			m, inner := t.Untag(b)
			walk(m, inner)
		case *zed.TypeRecord:
			if b == nil {
				return
			}
			it := b.Iter()
			for _, f := range t.Fields {
				if it.Done() {
					break
				}
				walk(f.Type, it.Next())
			}
		case *zed.TypeArray:
			for it := b.Iter(); b != nil && !it.Done(); {
				walk(t.Type, it.Next())
			}
		case *zed.TypeSet:
			for it := b.Iter(); b != nil && !it.Done(); {
				walk(t.Type, it.Next())
			}
		case *zed.TypeMap:
			for it := b.Iter(); b != nil && !it.Done(); {
				walk(t.KeyType, it.Next())
				if !it.Done() {
					walk(t.ValType, it.Next())
				}
			}
		case *zed.TypeError:
			walk(t.Type, b)
		}
	}
	for _, v := range vals {
		walk(v.Type(), v.Bytes())
	}
	var f []string
	if nullUnion {
		f = append(f, "null-union-value")
	}
	if enum {
		f = append(f, "enum")
	}
	if len(f) == 0 {
		return "plain"
	}
	return strings.Join(f, "+")
}

// c03VecSig is the signature of a vector-path failure: for inputs with a
// feature the vector runtime is known not to support, every kind of failure is
// the same finding; for plain inputs the symptom is kept.
func c03VecSig(symptom, cls, extra string) string {
	if !strings.HasSuffix(cls, "input=plain") {
		return "symptom=vector-path-defect case=" + cls
	}
	return "symptom=" + symptom + " case=" + cls + extra
}

func c03Run(j c03Job, run *isoCtx) {
	{
		run.Eval(j.name)
		cls := c03Class(j.name) + " input=" + c03Features(j.vals)
		b, err := vngWrite(j.vals)
		if err != nil {
			run.Violation(fmt.Sprintf("symptom=write-failed case=%s: %s", cls, errClass(err)), map[string]any{"case": j.name, "error": err.Error()})
			return
		}
		rows, err := vngReadRows(b)
		if err != nil {
			run.Violation(fmt.Sprintf("symptom=row-reader-failed case=%s: %s", cls, errClass(err)), map[string]any{"case": j.name, "error": err.Error()})
		} else if k, ok := gen.SeqEq(j.vals, rows); !ok {
			run.Violation(fmt.Sprintf("symptom=row-reader-sequence-changed case=%s", cls), c03Detail(j.name, j.vals, rows, k))
		}
		vec, err := vngReadVectors(b, nil)
		if err != nil {
			run.Violation(c03VecSig("vector-path-failed", cls, ": "+errClass(err)), map[string]any{"case": j.name, "error": err.Error()})
		} else if k, ok := gen.SeqEq(j.vals, vec); !ok {
			run.Violation(c03VecSig("vector-path-sequence-changed", cls, ""), c03Detail(j.name, j.vals, vec, k))
		}
		for _, paths := range j.paths {
			got, err := vngReadVectors(b, paths)
			pname := fmt.Sprint(paths)
			if err != nil {
				run.Violation(c03VecSig("projection-failed", cls, ": "+errClass(err)), map[string]any{"case": j.name, "paths": pname, "error": err.Error()})
				continue
			}
			if len(got) != len(j.vals) {
				run.Violation(c03VecSig("projection-changes-value-count", cls, ""), map[string]any{"case": j.name, "paths": pname, "want": len(j.vals), "got": len(got)})
				continue
			}
			for k := range got {
				for _, p := range paths {
					want, wok := derefPath(j.vals[k], p)
					have, hok := derefPath(got[k], p)
					if hok && have.IsMissing() {
						hok = false
					}
					if wok != hok || (wok && !gen.ValueEq(want, have)) {
						d := map[string]any{"case": j.name, "paths": pname, "index": k, "path": p.String(), "full_value": gen.Describe(j.vals[k]), "projected_value": gen.Describe(got[k])}
						run.Violation(c03VecSig("projection-differs-from-full-read", cls, ""), d)
						return
					}
				}
			}
		}
	}
}

func TestC03(t *testing.T) {
	run := rep.Start("C03", "exploration")
	defer run.Finish(t)
	jobs := c03Jobs()
	njobs, crashes := runIsolated(t, run, "c03")
	run.Set("objects", njobs)
	run.Set("process_crashes", crashes)
	run.Sample(map[string]any{"objects": len(jobs), "example": jobs[len(jobs)/2].name})
	run.Sample(map[string]any{"example": jobs[len(jobs)-c03UniverseSize-14].name})
	run.Set("exhaustive", true)
	run.Set("rule", "column scripts: field type in 16 types x distinct values in {1,2,255,256,257} x length in {0,1,2,257,600} x null pattern in {none,first,last,middle run,alternating,all} (quick: a stated sub-grid), plus a bare column per type; two-level null scripts: records null as a whole at {no, first, 70th, last, every 50th} rows x a field null at {no, four, every third} rows x length {65,130,200}, as top-level values and as a field; all interleavings of 4 top-level shapes (one non-record) up to length 4 with 8 projection sets (single, nested, forked, absent paths); every boundary-universe value alone and all together. Each object is read by the row reader and through vcache+vam materialisation and compared with the input (order, structural type, bytes); each projection's paths are compared with the full read, absent = missing. distinct = distinct objects")
}

func c03Detail(name string, want, got []zed.Value, k int) map[string]any {
	d := map[string]any{"case": name, "first_difference_at": k, "n_written": len(want), "n_read": len(got)}
	if k >= 0 && k < len(want) && k < len(got) {
		d["written"], d["read"] = gen.Describe(want[k]), gen.Describe(got[k])
	}
	return d
}
