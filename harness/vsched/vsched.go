// Package vsched is the controlled scheduler: inside a testing/synctest bubble
// every storage operation of every client parks at a gate; the root goroutine
// waits for quiescence (synctest.Wait), picks exactly one parked gate (or lets
// fake time pass) and releases it.  Exploration is a stateless depth-first
// search over choice vectors with a preemption bound and exact state
// memoisation (storage image + what each client has observed so far + clock).
package vsched

import (
	"fmt"
	"sort"
	"strings"
	"sync"
	"sync/atomic"
	"testing/synctest"
	"time"

	"verif/vstore"
)

// current is the client whose code is running (the one started or released
// last); the deterministic id generator keys its stream on it.
var current atomic.Int64

// IDReader is an io.Reader for ksuid.SetRand: a deterministic byte stream per
// running client, so that object, commit and pool ids are a function of the
// schedule only.
type IDReader struct {
	mu  sync.Mutex
	ctr map[int64]uint64
}

func NewIDReader() *IDReader { return &IDReader{ctr: map[int64]uint64{}} }

func (r *IDReader) Reset() {
	r.mu.Lock()
	r.ctr = map[int64]uint64{}
	r.mu.Unlock()
}

func (r *IDReader) Read(p []byte) (int, error) {
	r.mu.Lock()
	defer r.mu.Unlock()
	c := current.Load()
	n := r.ctr[c]
	r.ctr[c] = n + 1
	x := uint64(c+7)*0x9e3779b97f4a7c15 ^ (n+1)*0xbf58476d1ce4e5b9
	for i := range p {
		x ^= x >> 30
		x *= 0xbf58476d1ce4e5b9
		x ^= x >> 27
		x *= 0x94d049bb133111eb
		x ^= x >> 31
		p[i] = byte(x >> 17)
	}
	return len(p), nil
}

// SetCurrent tells the id generator which logical client runs (harness use,
// outside Run: -1 = setup, -2 = observer, ...).
func SetCurrent(c int) { current.Store(int64(c)) }

type gate struct {
	client int
	desc   string
	ch     chan struct{}
}

// Sched serialises the storage events of the clients of one execution.
type Sched struct {
	mu      sync.Mutex
	parked  []*gate
	obs     []uint64 // per client: running hash of (event, outcome digest)
	nobs    []int
	aborted bool
	names   []string
	index   map[string]int
}

func NewSched(clients []string) *Sched {
	s := &Sched{names: clients, index: map[string]int{}, obs: make([]uint64, len(clients)), nobs: make([]int, len(clients))}
	for i, c := range clients {
		s.index[c] = i
		s.obs[i] = 1469598103934665603
	}
	return s
}

// Hook returns the vstore hook of client i.
func (s *Sched) Hook() vstore.Hook { return (*hook)(s) }

type hook Sched

func (h *hook) Before(e vstore.Event) error {
	s := (*Sched)(h)
	s.mu.Lock()
	if s.aborted {
		s.mu.Unlock()
		return vstore.ErrCrashed
	}
	i, ok := s.index[e.Client]
	if !ok {
		s.mu.Unlock()
		return nil // un-gated client (observer)
	}
	g := &gate{client: i, desc: e.Op + " " + e.Path, ch: make(chan struct{})}
	s.parked = append(s.parked, g)
	s.mu.Unlock()
	<-g.ch
	s.mu.Lock()
	ab := s.aborted
	s.mu.Unlock()
	if ab {
		return vstore.ErrCrashed
	}
	return nil
}

func (h *hook) After(e vstore.Event, digest uint64) {
	s := (*Sched)(h)
	s.mu.Lock()
	defer s.mu.Unlock()
	i, ok := s.index[e.Client]
	if !ok {
		return
	}
	x := s.obs[i]
	for _, c := range []byte(e.Op + " " + e.Path) {
		x ^= uint64(c)
		x *= 1099511628211
	}
	for k := 0; k < 8; k++ {
		x ^= (digest >> (8 * k)) & 0xff
		x *= 1099511628211
	}
	s.obs[i] = x
	s.nobs[i]++
}

// Point is one scheduling decision of an execution.
type Point struct {
	Enabled []string `json:"enabled"` // canonical order; "clock" last if present
	Chosen  int      `json:"chosen"`
	Cost    []int    `json:"-"` // preemption cost of each alternative
}

// OpRecord is one client operation's call/return in logical time.
type OpRecord struct {
	Client int    `json:"client"`
	Index  int    `json:"index"`
	Op     string `json:"op"`
	Call   int    `json:"call"`
	Ret    int    `json:"ret"`
	Result string `json:"result"`
}

// Exec is the outcome of one execution.
type Exec struct {
	Points    []Point
	Ops       []OpRecord
	Pruned    bool   // stopped because the state was already explored
	Deadlock  bool   // no gate, no sleeper progress, clients unfinished
	Livelock  bool   // step cap hit
	Diverged  string // replay mismatch description
	Steps     int
	Keys      []uint64 // state key at each point
	FinalDone bool
}

// Client is the body of one logical process: a list of operations; each runs
// with the scheduler gating its storage events and returns a result string.
type Client struct {
	Name string
	Ops  []func() string
	Desc []string
}

// Options of one execution.
type Options struct {
	Prefix   []int
	Expect   []Point // optional: enabled sets expected while replaying Prefix
	StepCap  int
	StateKey func() uint64 // storage image digest
	// Visit is called at every scheduling point after the prefix with the state
	// key and the preemptions used so far; returning false prunes the execution.
	Visit func(key uint64, used int) bool
	// OnState is called at every scheduling point (incl. prefix) — used to
	// collect distinct storage images.
	OnState func()
	// IntraClientCost makes every choice other than the first enabled gate
	// cost one deviation, also among gates of one client (used to bound the
	// schedules of the worker goroutines of a single parallel query).
	IntraClientCost bool
	// AbortAll is called when the execution is abandoned; it must make every
	// pending storage operation fail fast (e.g. crash the engines).
	AbortAll func()
}

// Run executes the clients once under the given choice prefix (then default
// choices).  Must be called inside a synctest bubble.
func Run(s *Sched, clients []Client, opt Options) *Exec {
	x := &Exec{}
	n := len(clients)
	done := make([]bool, n)
	var mu sync.Mutex
	step := 0
	var wg sync.WaitGroup
	// Start clients one at a time so that everything before their first gate
	// is serialised deterministically.
	for i := range clients {
		i := i
		wg.Add(1)
		current.Store(int64(i))
		go func() {
			defer wg.Done()
			for k, op := range clients[i].Ops {
				mu.Lock()
				call := step
				mu.Unlock()
				res := op()
				mu.Lock()
				x.Ops = append(x.Ops, OpRecord{Client: i, Index: k, Op: clients[i].Desc[k], Call: call, Ret: step, Result: res})
				mu.Unlock()
			}
			mu.Lock()
			done[i] = true
			mu.Unlock()
		}()
		synctest.Wait()
	}
	last := -1
	used := 0
	idle := 0
	if opt.StepCap == 0 {
		opt.StepCap = 5000
	}
	abort := func() {
		s.mu.Lock()
		s.aborted = true
		s.mu.Unlock()
		if opt.AbortAll != nil {
			opt.AbortAll()
		}
		for {
			synctest.Wait()
			s.mu.Lock()
			ps := s.parked
			s.parked = nil
			s.mu.Unlock()
			if len(ps) == 0 {
				mu.Lock()
				all := true
				for _, d := range done {
					all = all && d
				}
				mu.Unlock()
				if all {
					return
				}
				// sleepers: let time pass
				time.Sleep(20 * time.Second)
				idle++
				if idle > 200 {
					return
				}
				continue
			}
			for _, g := range ps {
				close(g.ch)
			}
		}
	}
	for {
		synctest.Wait()
		mu.Lock()
		all := true
		for _, d := range done {
			all = all && d
		}
		mu.Unlock()
		if all {
			x.FinalDone = true
			break
		}
		s.mu.Lock()
		gates := append([]*gate(nil), s.parked...)
		s.mu.Unlock()
		// A client that is neither done nor parked is waiting for time.
		parkedOf := make([]int, n)
		for _, g := range gates {
			parkedOf[g.client]++
		}
		sleeper := false
		mu.Lock()
		for i := 0; i < n; i++ {
			if !done[i] && parkedOf[i] == 0 {
				sleeper = true
			}
		}
		mu.Unlock()
		if len(gates) == 0 {
			if !sleeper || idle > 50 {
				x.Deadlock = true
				abort()
				break
			}
			idle++
			time.Sleep(20 * time.Second)
			continue
		}
		// canonical order: last-run client first, then ascending client, by desc
		sort.SliceStable(gates, func(a, b int) bool {
			ga, gb := gates[a], gates[b]
			ra, rb := ga.client, gb.client
			if ra == last {
				ra = -1
			}
			if rb == last {
				rb = -1
			}
			if ra != rb {
				return ra < rb
			}
			return ga.desc < gb.desc
		})
		p := Point{}
		lastEnabled := last >= 0 && parkedOf[last] > 0
		for gi, g := range gates {
			p.Enabled = append(p.Enabled, fmt.Sprintf("%s:%s", s.names[g.client], g.desc))
			c := 0
			if lastEnabled && g.client != last {
				c = 1
			}
			if opt.IntraClientCost && gi > 0 {
				c = 1
			}
			p.Cost = append(p.Cost, c)
		}
		if sleeper {
			p.Enabled = append(p.Enabled, "clock")
			p.Cost = append(p.Cost, 1)
		}
		if opt.OnState != nil {
			opt.OnState()
		}
		idx := len(x.Points)
		choice := 0
		if idx < len(opt.Prefix) {
			choice = opt.Prefix[idx]
			if idx < len(opt.Expect) {
				if strings.Join(opt.Expect[idx].Enabled, "|") != strings.Join(p.Enabled, "|") {
					x.Diverged = fmt.Sprintf("step %d: enabled %v, recorded %v", idx, p.Enabled, opt.Expect[idx].Enabled)
					abort()
					break
				}
			}
			if choice >= len(p.Enabled) {
				x.Diverged = fmt.Sprintf("step %d: choice %d out of range %v", idx, choice, p.Enabled)
				abort()
				break
			}
		} else if opt.Visit != nil {
			key := s.stateKey(opt, done, &mu, gates, last)
			x.Keys = append(x.Keys, key)
			if !opt.Visit(key, used) {
				x.Pruned = true
				abort()
				break
			}
		}
		p.Chosen = choice
		used += p.Cost[choice]
		x.Points = append(x.Points, p)
		mu.Lock()
		step++
		mu.Unlock()
		x.Steps++
		if x.Steps > opt.StepCap {
			x.Livelock = true
			abort()
			break
		}
		if sleeper && choice == len(p.Enabled)-1 {
			time.Sleep(20 * time.Second)
			continue
		}
		g := gates[choice]
		s.mu.Lock()
		for i, q := range s.parked {
			if q == g {
				s.parked = append(s.parked[:i], s.parked[i+1:]...)
				break
			}
		}
		s.mu.Unlock()
		last = g.client
		current.Store(int64(g.client))
		close(g.ch)
	}
	wg.Wait()
	return x
}

var bubbleStart = time.Date(2000, 1, 1, 0, 0, 0, 0, time.UTC)

func (s *Sched) stateKey(opt Options, done []bool, mu *sync.Mutex, gates []*gate, last int) uint64 {
	h := uint64(14695981039346656037)
	mix := func(v uint64) {
		for k := 0; k < 8; k++ {
			h ^= (v >> (8 * k)) & 0xff
			h *= 1099511628211
		}
	}
	if opt.StateKey != nil {
		mix(opt.StateKey())
	}
	s.mu.Lock()
	for i := range s.obs {
		mix(s.obs[i])
		mix(uint64(s.nobs[i]))
	}
	s.mu.Unlock()
	mu.Lock()
	for _, d := range done {
		if d {
			mix(1)
		} else {
			mix(0)
		}
	}
	mu.Unlock()
	descs := make([]string, 0, len(gates))
	for _, g := range gates {
		descs = append(descs, fmt.Sprintf("%d:%s", g.client, g.desc))
	}
	sort.Strings(descs)
	for _, d := range descs {
		for _, c := range []byte(d) {
			h ^= uint64(c)
			h *= 1099511628211
		}
		mix(0xfe)
	}
	mix(uint64(time.Since(bubbleStart) / time.Millisecond))
	// "last" only matters for preemption accounting; keeping it in the key
	// makes budget-aware pruning exact.
	mix(uint64(last + 1))
	return h
}
