package vsched

import (
	"time"
)

// Explorer is the stateless DFS over choice vectors.
type Explorer struct {
	Bound    int // max preemptions (+ clock deviations); <0 = unbounded
	MaxExecs int
	Deadline time.Time
	// RunOne executes one schedule (inside a bubble) and returns its record.
	RunOne func(prefix []int, expect []Point, visit func(key uint64, used int) bool) *Exec
	// Check is the oracle for a complete (unpruned, finished) execution.
	Check func(x *Exec, choices []int)

	memo map[uint64]int

	Execs       int
	Complete    int
	Pruned      int
	States      int
	Transitions int
	Diverged    []string
	Deadlocks   [][]int
	Livelocks   [][]int
	CapHit      bool
	MaxDepth    int
}

type frame struct {
	prefix []int
	expect []Point
}

func (e *Explorer) Explore() {
	e.memo = map[uint64]int{}
	const inf = 1 << 30
	stack := []frame{{}}
	for len(stack) > 0 {
		if (e.MaxExecs > 0 && e.Execs >= e.MaxExecs) || (!e.Deadline.IsZero() && time.Now().After(e.Deadline)) {
			e.CapHit = true
			return
		}
		f := stack[len(stack)-1]
		stack = stack[:len(stack)-1]
		visit := func(key uint64, used int) bool {
			remaining := inf
			if e.Bound >= 0 {
				remaining = e.Bound - used
			}
			if prev, ok := e.memo[key]; ok {
				if prev >= remaining {
					return false
				}
				e.memo[key] = remaining
				return true
			}
			e.memo[key] = remaining
			e.States++
			return true
		}
		x := e.RunOne(f.prefix, f.expect, visit)
		e.Execs++
		if x.Diverged != "" {
			e.Diverged = append(e.Diverged, x.Diverged)
			continue
		}
		choices := make([]int, len(x.Points))
		for i, p := range x.Points {
			choices[i] = p.Chosen
		}
		if len(x.Points) > e.MaxDepth {
			e.MaxDepth = len(x.Points)
		}
		switch {
		case x.Deadlock:
			e.Deadlocks = append(e.Deadlocks, choices)
		case x.Livelock:
			e.Livelocks = append(e.Livelocks, choices)
		case x.Pruned:
			e.Pruned++
		case x.FinalDone:
			e.Complete++
			if e.Check != nil {
				e.Check(x, choices)
			}
		}
		if len(x.Points) > len(f.prefix) {
			e.Transitions += len(x.Points) - len(f.prefix)
		}
		used := 0
		for i, p := range x.Points {
			if i >= len(f.prefix) {
				for alt := len(p.Enabled) - 1; alt >= 0; alt-- {
					if alt == p.Chosen {
						continue
					}
					if e.Bound >= 0 && used+p.Cost[alt] > e.Bound {
						continue
					}
					np := make([]int, i+1)
					copy(np, choices[:i])
					np[i] = alt
					stack = append(stack, frame{prefix: np, expect: x.Points[:i+1]})
				}
			}
			used += p.Cost[p.Chosen]
		}
	}
}
