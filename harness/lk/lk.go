// Package lk drives the real lake code (lake.Root + lake/api) over a vstore
// image through a small, explicit operation alphabet shared by the lake checks
// (C12–C17, C19).
package lk

import (
	"context"
	"errors"
	"fmt"
	"sort"
	"strings"

	zed "github.com/brimdata/super"
	"github.com/brimdata/super/api"
	"github.com/brimdata/super/lake"
	lakeapi "github.com/brimdata/super/lake/api"
	"github.com/brimdata/super/lake/commits"
	"github.com/brimdata/super/lake/data"
	"github.com/brimdata/super/lakeparse"
	"github.com/brimdata/super/order"
	"github.com/brimdata/super/pkg/storage"
	"github.com/brimdata/super/zbuf"
	"github.com/brimdata/super/zio/zsonio"
	"github.com/brimdata/super/zson"
	"github.com/segmentio/ksuid"
	"go.uber.org/zap"

	"verif/vstore"
)

const RootPath = "/lake"

var RootURI = storage.MustParseURI("file://" + RootPath)

// IsMutablePath reports whether a lake-relative path is rewritten in place
// (so that reads of it can race with a rewrite under file semantics).
func IsMutablePath(p string) bool {
	return strings.HasSuffix(p, "/HEAD") || strings.HasSuffix(p, "/TAIL") ||
		strings.HasSuffix(p, "snap.zng")
}

// Lake is one process's handle.
type Lake struct {
	Eng  *vstore.Engine
	Root *lake.Root
	API  lakeapi.Interface
	// Store, if set, is used instead of Eng to read lake metadata (lakes on
	// a real file system, e.g. behind the service).
	Store storage.Engine
}

func (l *Lake) engine() storage.Engine {
	if l.Store != nil {
		return l.Store
	}
	return l.Eng
}

func NewEngine(s *vstore.Store, client string, hook vstore.Hook) *vstore.Engine {
	e := vstore.NewEngine(s, client, hook)
	e.Root = RootPath
	e.MutableRead = IsMutablePath
	return e
}

func Create(ctx context.Context, eng *vstore.Engine) (*Lake, error) {
	root, err := lake.Create(ctx, eng, nil, RootURI)
	if err != nil {
		return nil, err
	}
	return &Lake{Eng: eng, Root: root, API: lakeapi.FromRoot(root)}, nil
}

func Open(ctx context.Context, eng *vstore.Engine) (*Lake, error) {
	root, err := lake.Open(ctx, eng, nil, RootURI)
	if err != nil {
		return nil, err
	}
	return &Lake{Eng: eng, Root: root, API: lakeapi.FromRoot(root)}, nil
}

// Op is one lake operation of the alphabet.
type Op struct {
	Kind   string   `json:"kind"`
	Pool   string   `json:"pool,omitempty"`
	Branch string   `json:"branch,omitempty"`
	Name   string   `json:"name,omitempty"`    // new name / child branch / predicate / zson data
	Key    string   `json:"key,omitempty"`     // createpool: sort key spec e.g. "k:asc"
	Thresh int64    `json:"thresh,omitempty"`  // createpool
	Stride int      `json:"stride,omitempty"`  // createpool
	Idx    []int    `json:"idx,omitempty"`     // object indices (canonical order) or commit index
	At     int      `json:"at,omitempty"`      // createbranch: index into main's commit path from root (-1 = tip, -2 = nil)
	Vec    bool     `json:"vec,omitempty"`     // compact: write vectors
	Data   string   `json:"data,omitempty"`    // load: ZSON text
	IDs    []string `json:"ids,omitempty"`     // explicit ids (resolved beforehand)
	PoolID string   `json:"pool_id,omitempty"` // pool id resolved beforehand (API-level calls take ids)
}

func (o Op) String() string {
	var b strings.Builder
	b.WriteString(o.Kind)
	if o.Pool != "" {
		b.WriteString(" " + o.Pool)
	}
	if o.Branch != "" {
		b.WriteString("@" + o.Branch)
	}
	if o.Name != "" {
		b.WriteString(" " + o.Name)
	}
	if o.Key != "" {
		fmt.Fprintf(&b, " key=%s thresh=%d stride=%d", o.Key, o.Thresh, o.Stride)
	}
	if o.Idx != nil {
		fmt.Fprintf(&b, " idx=%v", o.Idx)
	}
	if o.Kind == "createbranch" {
		fmt.Fprintf(&b, " at=%d", o.At)
	}
	if o.Vec {
		b.WriteString(" vec")
	}
	if o.Data != "" {
		b.WriteString(" " + strings.ReplaceAll(o.Data, "\n", " "))
	}
	return b.String()
}

var msg = api.CommitMessage{Author: "verif", Body: "m"}

// ObjInfo describes a data object of a snapshot.
type ObjInfo struct {
	ID    ksuid.KSUID
	Min   string
	Max   string
	Count uint64
	Size  int64
	Vec   bool
}

// Objects returns the objects of the branch tip (or commit) in canonical
// order: by (Min, Max, Count, Size) formatted, ties by ID (ksuids are
// time-ordered so this is creation order within a run).
func (l *Lake) Objects(ctx context.Context, pool, rev string) ([]ObjInfo, error) {
	p, err := l.openPool(ctx, pool)
	if err != nil {
		return nil, err
	}
	commit, err := p.ResolveRevision(ctx, rev)
	if err != nil {
		return nil, err
	}
	if commit == ksuid.Nil {
		return nil, nil
	}
	snap, err := p.Snapshot(ctx, commit)
	if err != nil {
		return nil, err
	}
	var out []ObjInfo
	for _, o := range snap.SelectAll() {
		out = append(out, objInfo(o, snap.HasVector(o.ID)))
	}
	sortObjs(out)
	return out, nil
}

func objInfo(o *data.Object, vec bool) ObjInfo {
	return ObjInfo{ID: o.ID, Min: zson.FormatValue(o.Min), Max: zson.FormatValue(o.Max), Count: o.Count, Size: o.Size, Vec: vec}
}

func sortObjs(out []ObjInfo) {
	sort.SliceStable(out, func(i, j int) bool {
		a, b := out[i], out[j]
		if a.Min != b.Min {
			return a.Min < b.Min
		}
		if a.Max != b.Max {
			return a.Max < b.Max
		}
		if a.Count != b.Count {
			return a.Count < b.Count
		}
		if a.Size != b.Size {
			return a.Size < b.Size
		}
		return strings.Compare(a.ID.String(), b.ID.String()) < 0
	})
}

func (l *Lake) openPool(ctx context.Context, name string) (*lake.Pool, error) {
	id, err := l.Root.PoolID(ctx, name)
	if err != nil {
		return nil, err
	}
	return l.Root.OpenPool(ctx, id)
}

// CommitPath returns the commit ids of a branch from root to tip.
func (l *Lake) CommitPath(ctx context.Context, pool, branch string) ([]ksuid.KSUID, error) {
	p, err := l.openPool(ctx, pool)
	if err != nil {
		return nil, err
	}
	commit, err := p.ResolveRevision(ctx, branch)
	if err != nil {
		return nil, err
	}
	if commit == ksuid.Nil {
		return nil, nil
	}
	cs, err := commits.OpenStore(l.engine(), zap.NewNop(), p.Path.JoinPath(lake.CommitsTag))
	if err != nil {
		return nil, err
	}
	path, err := cs.Path(ctx, commit)
	if err != nil {
		return nil, err
	}
	path = append([]ksuid.KSUID(nil), path...)
	// Path is tip→root
	for i, j := 0, len(path)-1; i < j; i, j = i+1, j-1 {
		path[i], path[j] = path[j], path[i]
	}
	return path, nil
}

var ErrSkip = errors.New("op not applicable in this state")

// Apply performs op and returns a short result description (commit id etc).
func (l *Lake) Apply(ctx context.Context, op Op) (string, error) {
	switch op.Kind {
	case "query":
		vals, err := l.Query(ctx, op.Name)
		return "Q:" + strings.Join(vals, ","), err
	case "createpool":
		keys, err := order.ParseSortKeys(op.Key)
		if err != nil {
			return "", err
		}
		id, err := l.API.CreatePool(ctx, op.Pool, keys, op.Stride, op.Thresh)
		return id.String(), err
	case "renamepool", "droppool":
		var id ksuid.KSUID
		var err error
		if op.PoolID != "" {
			id, err = lakeparse.ParseID(op.PoolID)
		} else {
			id, err = l.Root.PoolID(ctx, op.Pool)
		}
		if err != nil {
			return "", err
		}
		if op.Kind == "renamepool" {
			return "", l.API.RenamePool(ctx, id, op.Name)
		}
		return "", l.API.RemovePool(ctx, id)
	}
	var err error
	var poolID ksuid.KSUID
	if op.PoolID != "" {
		poolID, err = lakeparse.ParseID(op.PoolID)
	} else {
		poolID, err = l.Root.PoolID(ctx, op.Pool)
	}
	if err != nil {
		return "", err
	}
	switch op.Kind {
	case "createbranch":
		parent := ksuid.Nil
		switch {
		case len(op.IDs) == 1:
			parent, err = lakeparse.ParseID(op.IDs[0])
			if err != nil {
				return "", err
			}
		case op.At == -2:
		default:
			path, err := l.CommitPath(ctx, op.Pool, op.Branch)
			if err != nil {
				return "", err
			}
			if op.At == -1 {
				if len(path) > 0 {
					parent = path[len(path)-1]
				}
			} else {
				if op.At >= len(path) {
					return "", ErrSkip
				}
				parent = path[op.At]
			}
		}
		return parent.String(), l.API.CreateBranch(ctx, poolID, op.Name, parent)
	case "dropbranch":
		return "", l.API.RemoveBranch(ctx, poolID, op.Branch)
	case "load":
		zctx := zed.NewContext()
		r := zsonio.NewReader(zctx, strings.NewReader(op.Data))
		id, err := l.API.Load(ctx, zctx, poolID, op.Branch, r, msg)
		return id.String(), err
	case "delete", "compact", "addvec", "delvec":
		ids, err := l.resolveObjs(ctx, op)
		if err != nil {
			return "", err
		}
		var id ksuid.KSUID
		switch op.Kind {
		case "delete":
			id, err = l.API.Delete(ctx, poolID, op.Branch, ids, msg)
		case "compact":
			id, err = l.API.Compact(ctx, poolID, op.Branch, ids, op.Vec, msg)
		case "addvec":
			id, err = l.API.AddVectors(ctx, poolID.String(), op.Branch, ids, msg)
		case "delvec":
			id, err = l.API.DeleteVectors(ctx, poolID.String(), op.Branch, ids, msg)
		}
		return id.String(), err
	case "deletewhere":
		id, err := l.API.DeleteWhere(ctx, poolID, op.Branch, op.Name, msg)
		return id.String(), err
	case "merge":
		id, err := l.API.MergeBranch(ctx, poolID, op.Name, op.Branch, msg)
		return id.String(), err
	case "revert":
		var commit ksuid.KSUID
		if len(op.IDs) == 1 {
			commit, err = lakeparse.ParseID(op.IDs[0])
			if err != nil {
				return "", err
			}
		} else {
			path, err := l.CommitPath(ctx, op.Pool, op.Branch)
			if err != nil {
				return "", err
			}
			if len(op.Idx) != 1 || op.Idx[0] >= len(path) {
				return "", ErrSkip
			}
			commit = path[op.Idx[0]]
		}
		id, err := l.API.Revert(ctx, poolID, op.Branch, commit, msg)
		return id.String(), err
	case "vacuum":
		ids, err := l.API.Vacuum(ctx, poolID.String(), op.Branch, false)
		return fmt.Sprint(len(ids)), err
	}
	return "", fmt.Errorf("unknown op kind %q", op.Kind)
}

func (l *Lake) resolveObjs(ctx context.Context, op Op) ([]ksuid.KSUID, error) {
	if op.IDs != nil {
		return lakeparse.ParseIDs(op.IDs)
	}
	objs, err := l.Objects(ctx, op.Pool, op.Branch)
	if err != nil {
		return nil, err
	}
	var ids []ksuid.KSUID
	for _, i := range op.Idx {
		if i >= len(objs) {
			return nil, ErrSkip
		}
		ids = append(ids, objs[i].ID)
	}
	return ids, nil
}

// Resolve turns the state-relative parts of op (pool name, object indices,
// commit indices) into ids using the current state, so that applying it later
// is a single API-level call rather than a read followed by a write.
func (l *Lake) Resolve(ctx context.Context, op Op) (Op, error) {
	if op.Kind == "createpool" || op.Kind == "init" || op.Kind == "query" {
		return op, nil
	}
	id, err := l.Root.PoolID(ctx, op.Pool)
	if err != nil {
		return op, nil // pool does not exist yet: stays name-based
	}
	op.PoolID = id.String()
	switch op.Kind {
	case "delete", "compact", "addvec", "delvec":
		if op.IDs == nil {
			ids, err := l.resolveObjs(ctx, op)
			if err != nil {
				return op, err
			}
			for _, id := range ids {
				op.IDs = append(op.IDs, id.String())
			}
		}
	case "revert":
		if op.IDs == nil {
			path, err := l.CommitPath(ctx, op.Pool, op.Branch)
			if err != nil {
				return op, err
			}
			if len(op.Idx) != 1 || op.Idx[0] >= len(path) {
				return op, ErrSkip
			}
			op.IDs = []string{path[op.Idx[0]].String()}
		}
	case "createbranch":
		if op.IDs == nil && op.At != -2 {
			path, err := l.CommitPath(ctx, op.Pool, op.Branch)
			if err != nil {
				return op, err
			}
			switch {
			case op.At == -1 && len(path) > 0:
				op.IDs = []string{path[len(path)-1].String()}
			case op.At == -1:
				op.At = -2
			case op.At >= len(path):
				return op, ErrSkip
			default:
				op.IDs = []string{path[op.At].String()}
			}
		}
	}
	return op, nil
}

// Query runs src and returns each output value formatted as ZSON.
func (l *Lake) Query(ctx context.Context, src string) ([]string, error) {
	return QueryAPI(ctx, l.API, src)
}

func QueryAPI(ctx context.Context, a lakeapi.Interface, src string) ([]string, error) {
	q, err := a.Query(ctx, nil, src)
	if err != nil {
		return nil, err
	}
	defer q.Pull(true)
	return Drain(q)
}

// Drain pulls p to the end, formatting each value.
func Drain(p zbuf.Puller) ([]string, error) {
	var out []string
	for {
		batch, err := p.Pull(false)
		if err != nil {
			return out, err
		}
		if batch == nil {
			return out, nil
		}
		for _, v := range batch.Values() {
			out = append(out, zson.FormatValue(v))
		}
		batch.Unref()
	}
}

// Contents is the observable data of a lake: pool → branch → values in scan order.
type Contents map[string]map[string][]string

// Canon returns a deterministic rendering with each branch's values sorted
// (multiset view).
func (c Contents) Canon() string {
	var b strings.Builder
	pools := make([]string, 0, len(c))
	for p := range c {
		pools = append(pools, p)
	}
	sort.Strings(pools)
	for _, p := range pools {
		brs := make([]string, 0, len(c[p]))
		for br := range c[p] {
			brs = append(brs, br)
		}
		sort.Strings(brs)
		for _, br := range brs {
			vals := append([]string(nil), c[p][br]...)
			sort.Strings(vals)
			fmt.Fprintf(&b, "%s@%s=[%s];", p, br, strings.Join(vals, ","))
		}
		if len(brs) == 0 {
			fmt.Fprintf(&b, "%s(no branches);", p)
		}
	}
	return b.String()
}

// PoolNames lists pool names (sorted); duplicates are preserved so a
// uniqueness check can see them.
func (l *Lake) PoolNames(ctx context.Context) ([]string, error) {
	pools, err := l.Root.ListPools(ctx)
	if err != nil {
		return nil, err
	}
	var names []string
	for _, p := range pools {
		names = append(names, p.Name)
	}
	sort.Strings(names)
	return names, nil
}

// BranchNames lists the branches of a pool (sorted).
func (l *Lake) BranchNames(ctx context.Context, pool string) ([]string, error) {
	p, err := l.openPool(ctx, pool)
	if err != nil {
		return nil, err
	}
	brs, err := p.ListBranches(ctx)
	if err != nil {
		return nil, err
	}
	var names []string
	for _, b := range brs {
		names = append(names, b.Name)
	}
	sort.Strings(names)
	return names, nil
}

// Contents reads every pool and branch through the query path.
func (l *Lake) Contents(ctx context.Context) (Contents, error) {
	names, err := l.PoolNames(ctx)
	if err != nil {
		return nil, fmt.Errorf("list pools: %w", err)
	}
	c := Contents{}
	for _, pn := range names {
		if _, dup := c[pn]; dup {
			return nil, fmt.Errorf("duplicate pool name %q", pn)
		}
		c[pn] = map[string][]string{}
		brs, err := l.BranchNames(ctx, pn)
		if err != nil {
			return nil, fmt.Errorf("list branches of %s: %w", pn, err)
		}
		for _, bn := range brs {
			if _, dup := c[pn][bn]; dup {
				return nil, fmt.Errorf("duplicate branch name %q in %s", bn, pn)
			}
			vals, err := l.Query(ctx, fmt.Sprintf("from %s@%s", pn, bn))
			if err != nil {
				return nil, fmt.Errorf("query %s@%s: %w", pn, bn, err)
			}
			if vals == nil {
				vals = []string{}
			}
			c[pn][bn] = vals
		}
	}
	return c, nil
}
