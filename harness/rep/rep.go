// Package rep is the reporting side of every check: evidence files, replay
// artefacts, VIOLATION / KNOWN-FINDING lines, known-findings matching.
package rep

import (
	"encoding/json"
	"fmt"
	"os"
	"path/filepath"
	"regexp"
	"sort"
	"strconv"
	"strings"
	"sync"
	"testing"
	"time"
)

func Dir() string {
	if d := os.Getenv("VERIF_DIR"); d != "" {
		return d
	}
	return "/verif"
}

func Tier() string {
	if t := os.Getenv("VERIF_TIER"); t == "thorough" {
		return "thorough"
	}
	return "quick"
}

func Thorough() bool { return Tier() == "thorough" }

func Seed() int {
	n, _ := strconv.Atoi(os.Getenv("VERIF_SEED"))
	return n
}

// Deadline returns the internal wall-clock budget of a check run.  Hitting it
// ends the enumeration early with exhaustive=false; it is never an oracle.
func Deadline(quick, thorough time.Duration) time.Time {
	if s := os.Getenv("VERIF_BUDGET_S"); s != "" {
		if n, err := strconv.Atoi(s); err == nil {
			return time.Now().Add(time.Duration(n) * time.Second)
		}
	}
	if Thorough() {
		return time.Now().Add(thorough)
	}
	return time.Now().Add(quick)
}

type finding struct {
	Property  string `json:"property"`
	Signature string `json:"signature"`
	What      string `json:"what"`
	Status    string `json:"status"` // "known" or "fixed"
	Commit    string `json:"commit,omitempty"`
}

type findingsFile struct {
	Findings []finding `json:"findings"`
}

func loadFindings() []finding {
	b, err := os.ReadFile(filepath.Join(Dir(), "known_findings.json"))
	if err != nil {
		return nil
	}
	var f findingsFile
	if err := json.Unmarshal(b, &f); err != nil {
		panic("known_findings.json: " + err.Error())
	}
	return f.Findings
}

type Run struct {
	ID          string
	Level       string
	start       time.Time
	mu          sync.Mutex
	Cov         map[string]any
	samples     []any
	Assumptions []string
	violations  map[string]any // signature → detail (first)
	vorder      []string
	knownHit    map[string]bool
	known       []finding
	nviol       int
	distinct    map[string]struct{}
	evals       int64
	MaxSamples  int
}

func Start(id, level string) *Run {
	return &Run{
		ID: id, Level: level, start: time.Now(),
		Cov:        map[string]any{},
		violations: map[string]any{},
		knownHit:   map[string]bool{},
		known:      loadFindings(),
		distinct:   map[string]struct{}{},
		MaxSamples: 6,
	}
}

// Eval counts one evaluation; key (if non-empty) contributes to the count of
// distinct non-trivial cases.
func (r *Run) Eval(key string) {
	r.mu.Lock()
	r.evals++
	if key != "" {
		r.distinct[key] = struct{}{}
	}
	r.mu.Unlock()
}

func (r *Run) AddEvals(n int64) {
	r.mu.Lock()
	r.evals += n
	r.mu.Unlock()
}

func (r *Run) Distinct(key string) {
	r.mu.Lock()
	r.distinct[key] = struct{}{}
	r.mu.Unlock()
}

func (r *Run) NumDistinct() int {
	r.mu.Lock()
	defer r.mu.Unlock()
	return len(r.distinct)
}

func (r *Run) Sample(s any) {
	r.mu.Lock()
	if len(r.samples) < r.MaxSamples {
		r.samples = append(r.samples, s)
	}
	r.mu.Unlock()
}

func (r *Run) Set(k string, v any) {
	r.mu.Lock()
	r.Cov[k] = v
	r.mu.Unlock()
}

func (r *Run) Add(k string, n int64) {
	r.mu.Lock()
	old, _ := r.Cov[k].(int64)
	r.Cov[k] = old + n
	r.mu.Unlock()
}

func (r *Run) Assume(s string) {
	r.mu.Lock()
	r.Assumptions = append(r.Assumptions, s)
	r.mu.Unlock()
}

var idRe = regexp.MustCompile(`[0-9A-Za-z]{27}`)
var hexRe = regexp.MustCompile(`0x[0-9a-f]{40}`)

// Normalize strips run-specific identifiers (ksuids) from a string so it can
// serve in a failure signature.
func Normalize(s string) string {
	s = idRe.ReplaceAllString(s, "<id>")
	s = hexRe.ReplaceAllString(s, "<id>")
	return s
}

// Violation records a failure with a machine-computed signature.  If the
// signature matches a known finding it is reported as such, otherwise as a
// violation with a replay artefact.  Duplicate signatures are counted once.
func (r *Run) Violation(signature string, detail any) {
	r.mu.Lock()
	defer r.mu.Unlock()
	for _, f := range r.known {
		if f.Status == "known" && f.Property == r.ID && f.Signature == signature {
			r.knownHit[signature] = true
			return
		}
	}
	if _, ok := r.violations[signature]; ok {
		return
	}
	r.violations[signature] = detail
	r.vorder = append(r.vorder, signature)
}

func (r *Run) NumViolations() int {
	r.mu.Lock()
	defer r.mu.Unlock()
	return len(r.violations)
}

// Finish writes replay files, prints the protocol lines, writes the evidence
// file, and fails t if there were violations.
func (r *Run) Finish(t *testing.T) {
	r.mu.Lock()
	defer r.mu.Unlock()
	dir := Dir()
	os.MkdirAll(filepath.Join(dir, "replays"), 0o755)
	os.MkdirAll(filepath.Join(dir, "evidence"), 0o755)
	var known []string
	for s := range r.knownHit {
		known = append(known, s)
	}
	sort.Strings(known)
	for _, s := range known {
		fmt.Printf("KNOWN-FINDING: property=%s %s\n", r.ID, s)
	}
	maxReport := 400
	for i, sig := range r.vorder {
		if i >= maxReport {
			fmt.Printf("(%d further distinct violation signatures suppressed)\n", len(r.vorder)-maxReport)
			break
		}
		path := filepath.Join(dir, "replays", fmt.Sprintf("%s-%d.json", r.ID, i))
		b, _ := json.MarshalIndent(map[string]any{
			"property":  r.ID,
			"signature": sig,
			"detail":    r.violations[sig],
		}, "", " ")
		os.WriteFile(path, b, 0o644)
		fmt.Printf("VIOLATION property=%s replay=%s\n", r.ID, path)
		fmt.Printf("  signature: %s\n", sig)
	}
	cov := map[string]any{}
	for k, v := range r.Cov {
		cov[k] = v
	}
	if _, ok := cov["evaluations"]; !ok {
		cov["evaluations"] = r.evals
	}
	if _, ok := cov["distinct_nontrivial"]; !ok {
		cov["distinct_nontrivial"] = len(r.distinct)
	}
	if len(r.samples) > 0 {
		cov["samples"] = r.samples
	}
	cov["known_findings_hit"] = known
	ev := map[string]any{
		"property_id": r.ID,
		"tier":        Tier(),
		"seed":        Seed(),
		"level":       r.Level,
		"coverage":    cov,
		"assumptions": append([]string{}, r.Assumptions...),
		"wall_s":      time.Since(r.start).Seconds(),
		"violations":  len(r.vorder),
	}
	b, err := json.MarshalIndent(ev, "", " ")
	if err != nil {
		t.Fatalf("evidence: %v", err)
	}
	if err := os.WriteFile(filepath.Join(dir, "evidence", r.ID+".json"), b, 0o644); err != nil {
		t.Fatalf("evidence: %v", err)
	}
	fmt.Printf("%s %s: evaluations=%v distinct=%v violations=%d known=%d wall=%.1fs\n",
		r.ID, Tier(), cov["evaluations"], cov["distinct_nontrivial"], len(r.vorder), len(known), time.Since(r.start).Seconds())
	if len(r.vorder) > 0 {
		t.Fail()
	}
}

// EnvInt reads an integer environment variable (0 if unset).
func EnvInt(name string) int {
	n, _ := strconv.Atoi(os.Getenv(name))
	return n
}

// Merge folds another run's counters (prefixed), samples and violations into r.
func (r *Run) Merge(o *Run, prefix string) {
	o.mu.Lock()
	defer o.mu.Unlock()
	r.mu.Lock()
	defer r.mu.Unlock()
	for k, v := range o.Cov {
		switch k {
		case "states", "transitions", "traces_validated_against_impl", "evaluations":
			a, _ := r.Cov[k].(int64)
			b, _ := v.(int64)
			r.Cov[k] = a + b
			r.Cov[prefix+k] = v
		case "exhaustive":
			a, ok := r.Cov[k].(bool)
			b, _ := v.(bool)
			r.Cov[k] = (a || !ok) && b
			r.Cov[prefix+k] = v
		case "rule", "explanation", "distinct_nontrivial":
			r.Cov[prefix+k] = v
		default:
			r.Cov[prefix+k] = v
		}
	}
	for k := range o.distinct {
		r.distinct[prefix+k] = struct{}{}
	}
	r.samples = append(r.samples, o.samples...)
	for _, sig := range o.vorder {
		if _, ok := r.violations[sig]; !ok {
			r.violations[sig] = o.violations[sig]
			r.vorder = append(r.vorder, sig)
		}
	}
	for k := range o.knownHit {
		r.knownHit[k] = true
	}
	r.Assumptions = append(r.Assumptions, o.Assumptions...)
}

// Short trims long strings for samples.
func Short(s string, n int) string {
	if len(s) <= n {
		return s
	}
	return s[:n] + "…"
}

func Join(ss []string) string { return strings.Join(ss, " ; ") }
