// Package vstore provides the storage.Engine implementations the checks run
// the real lake code against: an in-memory store with object-store (atomic
// put) or file (create-then-fill) semantics, cloneable in O(files), whose every
// operation is an *event* delivered to a Hook before it takes effect.  The hook
// is how the crash enumerator (stop at event k), the controlled scheduler
// (park at a gate) and the recorder observe and steer the execution.
package vstore

import (
	"bytes"
	"context"
	"errors"
	"fmt"
	"io"
	"io/fs"
	"sort"
	"strings"
	"sync"

	"github.com/brimdata/super/pkg/storage"
)

// Mode selects put semantics.
type Mode int

const (
	// Atomic: Put becomes visible at Close; PutIfNotExists is one atomic step.
	Atomic Mode = iota
	// File: Put creates/truncates at open, every Write call appends, Close has
	// no effect; PutIfNotExists is exclusive-create then write (as
	// storage.FileSystem does).  Reads of open readers observe the file as it is
	// at the time of each Read call.
	File
)

func (m Mode) String() string {
	if m == File {
		return "file"
	}
	return "atomic"
}

// ErrCrashed is returned by every operation of an Engine whose process has been
// declared dead.
var ErrCrashed = errors.New("vstore: process crashed")

// Store is the shared storage image.
type Store struct {
	mu    sync.Mutex
	files map[string][]byte
	dirs  map[string]struct{} // directories created so far (they outlive their files, as on a file system)
	inode map[string]uint64   // identity of the file behind a path (in-place mode: open handles follow the inode)
	nino  uint64
	Mode  Mode
	// Sem refines File mode: which of the file engine's operations were
	// observed (ProbeFileSystem) to publish their bytes atomically.
	Sem FileSem
}

// FileSem says, for the real storage.FileSystem, whether Put and
// PutIfNotExists make the target name refer to the complete contents in one
// step (temp file + rename/link) rather than create-then-fill.
type FileSem struct {
	PutAtomic  bool
	PutxAtomic bool
}

// DefaultFileSem is what File mode uses; checks set it from ProbeFileSystem so
// that the model follows the implementation in /repo's working tree.
var DefaultFileSem FileSem

func NewStore(mode Mode) *Store {
	return &Store{files: map[string][]byte{}, dirs: map[string]struct{}{}, inode: map[string]uint64{}, Mode: mode, Sem: DefaultFileSem}
}

func (s *Store) putInPlace() bool  { return s.Mode == File && !s.Sem.PutAtomic }
func (s *Store) putxInPlace() bool { return s.Mode == File && !s.Sem.PutxAtomic }

// Clone returns an independent copy of the image (file contents are copied
// lazily: slices are never mutated in place, only replaced).
func (s *Store) Clone() *Store {
	s.mu.Lock()
	defer s.mu.Unlock()
	c := &Store{files: make(map[string][]byte, len(s.files)), dirs: make(map[string]struct{}, len(s.dirs)), inode: make(map[string]uint64, len(s.inode)), nino: s.nino, Mode: s.Mode, Sem: s.Sem}
	for k, v := range s.inode {
		c.inode[k] = v
	}
	for k, v := range s.files {
		c.files[k] = v
	}
	for k := range s.dirs {
		c.dirs[k] = struct{}{}
	}
	return c
}

// Paths returns the sorted list of file paths present.
func (s *Store) Paths() []string {
	s.mu.Lock()
	defer s.mu.Unlock()
	out := make([]string, 0, len(s.files))
	for k := range s.files {
		out = append(out, k)
	}
	sort.Strings(out)
	return out
}

// Read returns the contents of path (nil, false if absent).
func (s *Store) Read(path string) ([]byte, bool) {
	s.mu.Lock()
	defer s.mu.Unlock()
	b, ok := s.files[path]
	return b, ok
}

// Set stores b at path (harness use: corrupting a file for a test).
func (s *Store) Set(path string, b []byte) {
	s.mu.Lock()
	defer s.mu.Unlock()
	s.files[path] = b
}

// Hash returns a digest of the complete image.
func (s *Store) Hash() uint64 {
	s.mu.Lock()
	defer s.mu.Unlock()
	keys := make([]string, 0, len(s.files))
	for k := range s.files {
		keys = append(keys, k)
	}
	sort.Strings(keys)
	h := fnvNew()
	for _, k := range keys {
		h = fnvAdd(h, []byte(k))
		h = fnvAdd(h, []byte{0})
		h = fnvAdd(h, s.files[k])
		h = fnvAdd(h, []byte{1})
	}
	dirs := make([]string, 0, len(s.dirs))
	for k := range s.dirs {
		dirs = append(dirs, k)
	}
	sort.Strings(dirs)
	for _, k := range dirs {
		h = fnvAdd(h, []byte(k))
		h = fnvAdd(h, []byte{2})
	}
	return h
}

// mkParents records the parent directories of path; caller holds s.mu.
func (s *Store) mkParents(path string) {
	for {
		i := strings.LastIndexByte(path, '/')
		if i <= 0 {
			return
		}
		path = path[:i]
		if _, ok := s.dirs[path]; ok {
			return
		}
		s.dirs[path] = struct{}{}
	}
}

func fnvNew() uint64 { return 14695981039346656037 }
func fnvAdd(h uint64, b []byte) uint64 {
	for _, c := range b {
		h ^= uint64(c)
		h *= 1099511628211
	}
	return h
}

// Event describes one storage step about to happen.
type Event struct {
	Client string
	Op     string // get put create write close putx createx delete deleteprefix exists size list read
	Path   string // path relative to the lake root where possible
	N      int    // bytes (write/putx/read)
}

func (e Event) String() string {
	if e.N > 0 {
		return fmt.Sprintf("%s:%s %s %d", e.Client, e.Op, e.Path, e.N)
	}
	return fmt.Sprintf("%s:%s %s", e.Client, e.Op, e.Path)
}

// Hook is called before every event.  Returning a non-nil error makes the
// operation fail with that error without taking effect.
type Hook interface {
	Before(e Event) error
}

// AfterHook, if implemented by the Hook, is told the outcome of every event
// as a digest of what the caller observed (contents read, error class).
type AfterHook interface {
	After(e Event, digest uint64)
}

// Engine is one process's view of the store.
type Engine struct {
	S      *Store
	Client string
	Hook   Hook
	// Root, if set, is stripped from paths in events.
	Root string
	// MutableRead, if set, decides for which paths Read calls on an open reader
	// are events in File mode (paths that are rewritten in place).
	MutableRead func(path string) bool

	mu      sync.Mutex
	crashed bool
	// made mirrors storage.FileSystem's per-process cache of directories it
	// has already created: a directory removed behind its back is not
	// re-created, and the open then fails with a not-exist error.
	made map[string]struct{}
}

// checkPath mirrors storage.FileSystem.checkPath; caller holds S.mu.
func (e *Engine) checkPath(u *storage.URI) error {
	path := key(u)
	i := strings.LastIndexByte(path, '/')
	if i <= 0 {
		return nil
	}
	dir := path[:i]
	e.mu.Lock()
	_, cached := e.made[dir]
	if !cached {
		if e.made == nil {
			e.made = map[string]struct{}{}
		}
		e.made[dir] = struct{}{}
	}
	e.mu.Unlock()
	if cached {
		if _, ok := e.S.dirs[dir]; !ok {
			return notExist(u)
		}
		return nil
	}
	e.S.mkParents(path)
	return nil
}

var _ storage.Engine = (*Engine)(nil)

func NewEngine(s *Store, client string, hook Hook) *Engine {
	return &Engine{S: s, Client: client, Hook: hook}
}

// Crash declares the process dead: all later operations fail without effect.
func (e *Engine) Crash() {
	e.mu.Lock()
	e.crashed = true
	e.mu.Unlock()
}

func (e *Engine) Crashed() bool {
	e.mu.Lock()
	defer e.mu.Unlock()
	return e.crashed
}

func (e *Engine) rel(p string) string {
	if e.Root != "" && strings.HasPrefix(p, e.Root) {
		return strings.TrimPrefix(strings.TrimPrefix(p, e.Root), "/")
	}
	return p
}

func (e *Engine) before(op, path string, n int) error {
	if e.Crashed() {
		return ErrCrashed
	}
	if e.Hook != nil {
		if err := e.Hook.Before(Event{Client: e.Client, Op: op, Path: e.rel(path), N: n}); err != nil {
			return err
		}
		if e.Crashed() {
			return ErrCrashed
		}
	}
	return nil
}

func (e *Engine) after(op, path string, n int, parts ...[]byte) {
	ah, ok := e.Hook.(AfterHook)
	if !ok {
		return
	}
	h := fnvNew()
	for _, p := range parts {
		h = fnvAdd(h, p)
		h = fnvAdd(h, []byte{0xff})
	}
	ah.After(Event{Client: e.Client, Op: op, Path: e.rel(path), N: n}, h)
}

var (
	dOK       = []byte("ok")
	dNotExist = []byte("notexist")
	dExist    = []byte("exist")
	dTrue     = []byte("true")
	dFalse    = []byte("false")
)

func key(u *storage.URI) string { return u.Path }

func notExist(u *storage.URI) error { return fmt.Errorf("%s: %w", u, fs.ErrNotExist) }

type reader struct {
	e    *Engine
	path string
	b    []byte // snapshot (atomic mode, or immutable paths)
	live bool   // file mode + mutable path: consult the store on every Read
	off  int64
}

func (r *reader) cur() ([]byte, error) {
	if !r.live {
		return r.b, nil
	}
	b, ok := r.e.S.Read(r.path)
	if !ok {
		// An unlinked open file keeps its last contents; we approximate with
		// the snapshot taken at open.
		return r.b, nil
	}
	return b, nil
}

func (r *reader) Read(p []byte) (int, error) {
	if r.live {
		if err := r.e.before("read", r.path, len(p)); err != nil {
			return 0, err
		}
	} else if r.e.Crashed() {
		return 0, ErrCrashed
	}
	b, _ := r.cur()
	if r.off >= int64(len(b)) {
		if r.live {
			r.e.after("read", r.path, 0, []byte("eof"))
		}
		return 0, io.EOF
	}
	n := copy(p, b[r.off:])
	r.off += int64(n)
	if r.live {
		r.e.after("read", r.path, n, p[:n])
	}
	return n, nil
}

func (r *reader) ReadAt(p []byte, off int64) (int, error) {
	if r.e.Crashed() {
		return 0, ErrCrashed
	}
	b, _ := r.cur()
	if off >= int64(len(b)) {
		return 0, io.EOF
	}
	n := copy(p, b[off:])
	if n < len(p) {
		return n, io.EOF
	}
	return n, nil
}

func (r *reader) Close() error { return nil }

func (r *reader) Size() (int64, error) {
	b, _ := r.cur()
	return int64(len(b)), nil
}

func (e *Engine) Get(_ context.Context, u *storage.URI) (storage.Reader, error) {
	if err := e.before("get", key(u), 0); err != nil {
		return nil, err
	}
	b, ok := e.S.Read(key(u))
	if !ok {
		e.after("get", key(u), 0, dNotExist)
		return nil, notExist(u)
	}
	live := e.S.putInPlace() && e.MutableRead != nil && e.MutableRead(e.rel(key(u)))
	if live {
		e.after("get", key(u), 0, dOK)
	} else {
		e.after("get", key(u), len(b), dOK, b)
	}
	return &reader{e: e, path: key(u), b: b, live: live}, nil
}

type writer struct {
	e      *Engine
	path   string
	buf    bytes.Buffer
	closed bool
	off    int    // file offset of this handle (in-place mode)
	ino    uint64 // the file this handle refers to (in-place mode)
}

func (w *writer) Write(p []byte) (int, error) {
	if w.closed {
		return 0, errors.New("vstore: write after close")
	}
	if w.e.S.putInPlace() {
		if err := w.e.before("write", w.path, len(p)); err != nil {
			return 0, err
		}
		// pwrite at this handle's own offset: a concurrent truncation by
		// another handle leaves a hole, a concurrent writer is overwritten.
		w.e.S.mu.Lock()
		old, present := w.e.S.files[w.path]
		if present && w.e.S.inode[w.path] == w.ino {
			n := len(old)
			if w.off+len(p) > n {
				n = w.off + len(p)
			}
			nb := make([]byte, n)
			copy(nb, old)
			copy(nb[w.off:], p)
			w.e.S.files[w.path] = nb
		}
		// (if the file was unlinked meanwhile the bytes go to the orphan inode)
		w.off += len(p)
		w.e.S.mu.Unlock()
		return len(p), nil
	}
	if w.e.Crashed() {
		return 0, ErrCrashed
	}
	w.buf.Write(p)
	return len(p), nil
}

func (w *writer) Close() error {
	if w.closed {
		return nil
	}
	w.closed = true
	if w.e.S.putInPlace() {
		// Nothing becomes visible at close; not an event worth a crash point,
		// but a dead process reports failure.
		if w.e.Crashed() {
			return ErrCrashed
		}
		return nil
	}
	if err := w.e.before("close", w.path, w.buf.Len()); err != nil {
		return err
	}
	b := append([]byte(nil), w.buf.Bytes()...)
	w.e.S.mu.Lock()
	w.e.S.files[w.path] = b
	w.e.S.mu.Unlock()
	return nil
}

func (e *Engine) Put(_ context.Context, u *storage.URI) (io.WriteCloser, error) {
	if e.S.putInPlace() {
		if err := e.before("create", key(u), 0); err != nil {
			return nil, err
		}
		e.S.mu.Lock()
		if err := e.checkPath(u); err != nil {
			e.S.mu.Unlock()
			return nil, err
		}
		_, exists := e.S.files[key(u)]
		if _, ok := e.S.inode[key(u)]; !ok || !exists {
			e.S.nino++
			e.S.inode[key(u)] = e.S.nino
		}
		ino := e.S.inode[key(u)]
		e.S.files[key(u)] = nil
		e.S.mu.Unlock()
		return &writer{e: e, path: key(u), ino: ino}, nil
	}
	if err := e.before("put", key(u), 0); err != nil {
		return nil, err
	}
	e.S.mu.Lock()
	err := e.checkPath(u)
	e.S.mu.Unlock()
	if err != nil {
		return nil, err
	}
	return &writer{e: e, path: key(u)}, nil
}

// existErr returns an error that os.IsExist recognises, as the file engine's
// O_EXCL open does.
func existErr(path string) error {
	return &fs.PathError{Op: "open", Path: path, Err: fs.ErrExist}
}

func (e *Engine) PutIfNotExists(_ context.Context, u *storage.URI, b []byte) error {
	if e.S.putxInPlace() {
		if err := e.before("createx", key(u), 0); err != nil {
			return err
		}
		e.S.mu.Lock()
		if err := e.checkPath(u); err != nil {
			e.S.mu.Unlock()
			return err
		}
		if _, ok := e.S.files[key(u)]; ok {
			e.S.mu.Unlock()
			e.after("createx", key(u), 0, dExist)
			return existErr(key(u))
		}
		e.S.files[key(u)] = nil
		e.S.mu.Unlock()
		e.after("createx", key(u), 0, dOK)
		if err := e.before("write", key(u), len(b)); err != nil {
			return err
		}
		e.S.mu.Lock()
		e.S.files[key(u)] = append([]byte(nil), b...)
		e.S.mu.Unlock()
		return nil
	}
	if err := e.before("putx", key(u), len(b)); err != nil {
		return err
	}
	e.S.mu.Lock()
	defer e.S.mu.Unlock()
	if err := e.checkPath(u); err != nil {
		return err
	}
	if _, ok := e.S.files[key(u)]; ok {
		e.after("putx", key(u), 0, dExist)
		return existErr(key(u))
	}
	e.S.files[key(u)] = append([]byte(nil), b...)
	e.after("putx", key(u), 0, dOK)
	return nil
}

func (e *Engine) Delete(_ context.Context, u *storage.URI) error {
	if err := e.before("delete", key(u), 0); err != nil {
		return err
	}
	e.S.mu.Lock()
	defer e.S.mu.Unlock()
	if _, ok := e.S.files[key(u)]; !ok {
		e.after("delete", key(u), 0, dNotExist)
		return notExist(u)
	}
	delete(e.S.files, key(u))
	delete(e.S.inode, key(u))
	e.after("delete", key(u), 0, dOK)
	return nil
}

func (e *Engine) DeleteByPrefix(_ context.Context, u *storage.URI) error {
	if err := e.before("deleteprefix", key(u), 0); err != nil {
		return err
	}
	prefix := strings.TrimSuffix(key(u), "/") + "/"
	e.S.mu.Lock()
	defer e.S.mu.Unlock()
	for k := range e.S.files {
		if strings.HasPrefix(k, prefix) || k == key(u) {
			delete(e.S.files, k)
			delete(e.S.inode, k)
		}
	}
	for k := range e.S.dirs {
		if strings.HasPrefix(k, prefix) || k+"/" == prefix {
			delete(e.S.dirs, k)
		}
	}
	return nil
}

func (e *Engine) Exists(_ context.Context, u *storage.URI) (bool, error) {
	if err := e.before("exists", key(u), 0); err != nil {
		return false, err
	}
	e.S.mu.Lock()
	defer e.S.mu.Unlock()
	_, ok := e.S.files[key(u)]
	if !ok {
		_, ok = e.S.dirs[strings.TrimSuffix(key(u), "/")]
	}
	if ok {
		e.after("exists", key(u), 0, dTrue)
	} else {
		e.after("exists", key(u), 0, dFalse)
	}
	return ok, nil
}

func (e *Engine) Size(_ context.Context, u *storage.URI) (int64, error) {
	if err := e.before("size", key(u), 0); err != nil {
		return 0, err
	}
	b, ok := e.S.Read(key(u))
	if !ok {
		e.after("size", key(u), 0, dNotExist)
		return 0, notExist(u)
	}
	e.after("size", key(u), len(b), dOK)
	return int64(len(b)), nil
}

func (e *Engine) List(_ context.Context, u *storage.URI) ([]storage.Info, error) {
	if err := e.before("list", key(u), 0); err != nil {
		return nil, err
	}
	prefix := strings.TrimSuffix(key(u), "/") + "/"
	e.S.mu.Lock()
	defer e.S.mu.Unlock()
	seen := map[string]int64{}
	_, found := e.S.dirs[strings.TrimSuffix(key(u), "/")]
	for k := range e.S.dirs {
		if strings.HasPrefix(k, prefix) {
			rest := k[len(prefix):]
			if i := strings.IndexByte(rest, '/'); i >= 0 {
				rest = rest[:i]
			}
			seen[rest] = 0
		}
	}
	for k, v := range e.S.files {
		if !strings.HasPrefix(k, prefix) {
			continue
		}
		rest := k[len(prefix):]
		if i := strings.IndexByte(rest, '/'); i >= 0 {
			seen[rest[:i]] = 0
		} else {
			seen[rest] = int64(len(v))
		}
	}
	if !found {
		e.after("list", key(u), 0, dNotExist)
		return nil, notExist(u)
	}
	names := make([]string, 0, len(seen))
	for n := range seen {
		names = append(names, n)
	}
	sort.Strings(names)
	out := make([]storage.Info, len(names))
	for i, n := range names {
		out[i] = storage.Info{Name: n, Size: seen[n]}
	}
	e.after("list", key(u), len(names), []byte(fmt.Sprint(out)))
	return out, nil
}

// Recorder is a Hook that logs events and optionally crashes the engine at
// event index CrashAt (0-based; -1 = never).
type Recorder struct {
	mu      sync.Mutex
	Events  []Event
	CrashAt int
	Engine  *Engine
	Active  bool
}

func (r *Recorder) Before(e Event) error {
	r.mu.Lock()
	defer r.mu.Unlock()
	if !r.Active {
		return nil
	}
	idx := len(r.Events)
	r.Events = append(r.Events, e)
	if r.CrashAt >= 0 && idx == r.CrashAt {
		r.Engine.Crash()
		return ErrCrashed
	}
	return nil
}
