package vstore

import (
	"context"
	"fmt"
	"os"
	"path/filepath"
	"strings"
	"syscall"
	"unsafe"

	"github.com/brimdata/super/pkg/storage"
)

// ProbeFileSystem runs the real storage.FileSystem from /repo's working tree in
// a private temp directory under an inotify watch and reports, from the kernel's
// event stream, whether Put and PutIfNotExists fill the target name in place
// (IN_MODIFY on the target: create-then-fill) or publish complete contents in one
// step (the target only ever appears through a link/rename).  The returned trace
// lists the raw events.  This is what binds vstore's File mode to the code.
func ProbeFileSystem() (FileSem, []string, error) {
	var sem FileSem
	dir, err := os.MkdirTemp("", "vstore-probe-")
	if err != nil {
		return sem, nil, err
	}
	defer os.RemoveAll(dir)
	fd, err := syscall.InotifyInit1(syscall.IN_NONBLOCK | syscall.IN_CLOEXEC)
	if err != nil {
		return sem, nil, fmt.Errorf("inotify_init: %w", err)
	}
	defer syscall.Close(fd)
	mask := uint32(syscall.IN_CREATE | syscall.IN_MODIFY | syscall.IN_MOVED_TO | syscall.IN_MOVED_FROM | syscall.IN_CLOSE_WRITE | syscall.IN_DELETE)
	if _, err := syscall.InotifyAddWatch(fd, dir, mask); err != nil {
		return sem, nil, fmt.Errorf("inotify_add_watch: %w", err)
	}
	fsys := storage.NewFileSystem()
	ctx := context.Background()
	var trace []string
	drain := func(label, target string) (modified bool, err error) {
		buf := make([]byte, 64*1024)
		for {
			n, rerr := syscall.Read(fd, buf)
			if n <= 0 || rerr != nil {
				break
			}
			for off := 0; off+syscall.SizeofInotifyEvent <= n; {
				ev := (*syscall.InotifyEvent)(unsafe.Pointer(&buf[off]))
				name := strings.TrimRight(string(buf[off+syscall.SizeofInotifyEvent:off+syscall.SizeofInotifyEvent+int(ev.Len)]), "\x00")
				off += syscall.SizeofInotifyEvent + int(ev.Len)
				var kinds []string
				for _, k := range []struct {
					m uint32
					s string
				}{{syscall.IN_CREATE, "CREATE"}, {syscall.IN_MODIFY, "MODIFY"}, {syscall.IN_MOVED_TO, "MOVED_TO"}, {syscall.IN_MOVED_FROM, "MOVED_FROM"}, {syscall.IN_CLOSE_WRITE, "CLOSE_WRITE"}, {syscall.IN_DELETE, "DELETE"}} {
					if ev.Mask&k.m != 0 {
						kinds = append(kinds, k.s)
					}
				}
				short := name
				if name != target {
					short = "<other>"
				}
				trace = append(trace, fmt.Sprintf("%s: %s %s", label, strings.Join(kinds, "|"), short))
				if name == target && ev.Mask&syscall.IN_MODIFY != 0 {
					modified = true
				}
			}
		}
		return modified, nil
	}
	// PutIfNotExists
	ux := storage.MustParseURI("file://" + filepath.Join(dir, "x"))
	if err := fsys.PutIfNotExists(ctx, ux, []byte("hello")); err != nil {
		return sem, trace, err
	}
	mod, _ := drain("putx", "x")
	sem.PutxAtomic = !mod
	if b, err := os.ReadFile(filepath.Join(dir, "x")); err != nil || string(b) != "hello" {
		return sem, trace, fmt.Errorf("probe: PutIfNotExists wrote %q, %v", b, err)
	}
	if err := fsys.PutIfNotExists(ctx, ux, []byte("again")); !os.IsExist(err) {
		return sem, trace, fmt.Errorf("probe: second PutIfNotExists returned %v, want an exists error", err)
	}
	drain("putx-again", "x")
	// Put with two writes over an existing file.
	up := storage.MustParseURI("file://" + filepath.Join(dir, "p"))
	for round := 0; round < 2; round++ {
		w, err := fsys.Put(ctx, up)
		if err != nil {
			return sem, trace, err
		}
		w.Write([]byte("ab"))
		w.Write([]byte("cd"))
		if err := w.Close(); err != nil {
			return sem, trace, err
		}
	}
	mod, _ = drain("put", "p")
	sem.PutAtomic = !mod
	return sem, trace, nil
}
