// Package gen holds the small-scope universes (values, types) and the
// structural comparison used by the codec and runtime checks.
package gen

import (
	"bytes"
	"fmt"
	"math"
	"net/netip"

	zed "github.com/brimdata/super"
	"github.com/brimdata/super/zcode"
	"github.com/brimdata/super/zson"
)

// core literals: one or two per kind, boundary values included.
var coreZSON = []string{
	// unsigned / signed integers at their extremes and around 2^53
	`0(uint8)`, `255(uint8)`, `65535(uint16)`, `4294967295(uint32)`, `0(uint64)`, `18446744073709551615(uint64)`, `9007199254740993(uint64)`,
	`-128(int8)`, `127(int8)`, `-32768(int16)`, `2147483647(int32)`,
	`0`, `1`, `-1`, `9223372036854775807`, `-9223372036854775808`, `9007199254740992`, `9007199254740993`,
	// durations and times
	`0s`, `1ns`, `-1ns`, `2562047h47m16.854775807s`, `-2562047h47m16.854775808s`,
	`1970-01-01T00:00:00Z`, `2262-04-11T23:47:16.854775807Z`, `1677-09-21T00:12:43.145224192Z`, `2024-02-29T12:34:56.789Z`,
	// floats
	`0.`, `-0.`, `1.5`, `+Inf`, `-Inf`, `NaN`, `5e-324`, `1.7976931348623157e+308`, `9007199254740993.`,
	`1.5(float32)`, `3.4028235e+38(float32)`, `-0.(float32)`, `1.5(float16)`, `65504.(float16)`,
	`true`, `false`,
	`0x`, `0x00ff10`,
	`""`, `"a"`, `"hello\nworld\t\"q\" \\ back"`, `"é 漢 😀"`, `"\u0000"`, `"null"`, `"1"`,
	`1.2.3.4`, `255.255.255.255`, `::1`, `::ffff:1.2.3.4`, `2001:db8::1`,
	`10.0.0.0/8`, `0.0.0.0/0`, `::/0`, `2001:db8::/32`,
	`<int64>`, `<{a:int64,b:[string]}>`, `<port=uint16>`, `<(int64,string)>`, `<|{string:|[ip]|}|>`, `<enum(a,b)>`, `<error(string)>`, `<null>`,
	`null`, `null(int64)`, `null(string)`, `null(ip)`, `null({a:int64})`, `null([int64])`, `null((int64,string))`, `null(port=uint16)`, `null(time)`, `null(float64)`,
	`error("boom")`, `error({code:1,msg:"x"})`, `error(null)`,
	`%a(enum(a,b))`, `%b(enum(a,b))`,
	// records
	`{}`, `{a:1}`, `{a:1,b:"x"}`, `{b:"x",a:1}`, `{"a b":1}`, `{"":1}`, `{"true":1,"null":2,"1":3}`, `{é:1}`, `{a:{b:{c:1}}}`, `{a:null(int64),b:null}`, `{a:[],b:|[]|,c:|{}|}`,
	// arrays, sets, maps
	`[]`, `[1,2]`, `[1,"a"]`, `[[1],[2]]`, `[null(int64),1]`, `[null,1]`, `[{a:1},{a:2}]`, `[{a:1},{b:2}]`, `[1,"a",null]`,
	`|[]|`, `|[1,2]|`, `|["a",1]|`, `|[[1],[2,3]]|`,
	`|{}|`, `|{1:"a",2:"b"}|`, `|{"k":[1]}|`, `|{{a:1}:|[1]|}|`, `|{1:"a","b":2}|`,
	// unions
	`1((int64,string))`, `"a"((int64,string))`, `null((int64,string))`, `[1((int64,string))]`, `1((int64,(string,bool)))`, `{u:1((int64,string))}`,
	// named types
	`80(port=uint16)`, `{a:1}(=rec)`, `1(=n)`, `"x"(=n)`, `{p:80(port=uint16),q:81(port)}`, `[80(port=uint16)]`, `1(myu=(int64,string))`, `{a:{b:1}(=inner)}(=outer)`,
	`null(rec={a:int64})`, `{x:1(=n),y:"s"}`,
}

// Value is one element of the universe.
type Value struct {
	Name string
	Val  zed.Value
}

// Core parses the core literals into zctx and adds values that cannot be
// written as literals reliably.
func Core(zctx *zed.Context) []Value {
	var out []Value
	for _, s := range coreZSON {
		v, err := zson.ParseValue(zctx, s)
		if err != nil {
			panic(fmt.Sprintf("gen: universe literal %s: %v", s, err))
		}
		out = append(out, Value{s, v.Copy()})
	}
	out = append(out,
		Value{"builder:-0.0", zed.NewFloat64(math.Copysign(0, -1))},
		Value{"builder:NaN-payload", zed.NewFloat64(math.Float64frombits(0x7ff8000000000001))},
		Value{"builder:float32-NaN", zed.NewFloat32(float32(math.NaN()))},
		Value{"builder:enum-quoted-symbol", zed.NewValue(zctx.LookupTypeEnum([]string{"x y", "z"}), zed.EncodeUint(0))},
		Value{"builder:ip4-mapped-ip6", zed.NewValue(zed.TypeIP, zed.EncodeIP(netip.MustParseAddr("::ffff:1.2.3.4")))},
		Value{"builder:net-mapped", zed.NewValue(zed.TypeNet, zed.EncodeNet(netip.MustParsePrefix("::ffff:10.0.0.0/104")))},
		unionOfRecordWithNamedField(zctx),
		Value{"builder:missing", zctx.Missing()},
		Value{"builder:quiet", zctx.Quiet()},
	)
	return out
}

// unionOfRecordWithNamedField builds {p:80(port=uint16)} as a member of the
// union (int64,{p:port}): the union decorator refers to a type name that is
// defined inside the value.
func unionOfRecordWithNamedField(zctx *zed.Context) Value {
	port, _ := zctx.LookupTypeNamed("port", zed.TypeUint16)
	rec := zctx.MustLookupTypeRecord([]zed.Field{{Name: "p", Type: port}})
	u := zctx.LookupTypeUnion([]zed.Type{zed.TypeInt64, rec})
	var inner, b zcode.Builder
	inner.Append(zed.EncodeUint(80))
	b.Append(zed.EncodeInt(int64(u.TagOf(rec))))
	b.Append(inner.Bytes())
	return Value{"builder:union-of-record-with-named-field", zed.NewValue(u, b.Bytes()).Copy()}
}

// Small is a 14-value sub-universe for products (pairs, triples).
func Small(zctx *zed.Context) []Value {
	lits := []string{`1`, `"a"`, `null(int64)`, `{a:1}`, `{a:"s",b:2}`, `[1,2]`, `[1,"a"]`, `|{1:"a"}|`, `1((int64,string))`, `80(port=uint16)`, `1(=n)`, `"x"(=n)`, `<{a:int64}>`, `error("e")`, `%a(enum(a,b))`, `-0.`, `1.2.3.4`}
	var out []Value
	for _, s := range lits {
		v, err := zson.ParseValue(zctx, s)
		if err != nil {
			panic(fmt.Sprintf("gen: %s: %v", s, err))
		}
		out = append(out, Value{s, v.Copy()})
	}
	return out
}

// Wrap builds depth+1 compositions of v programmatically (no parser involved):
// in records, arrays, a set, maps (as key and as value), an error, a named
// record, and an array whose element type is a union.
func Wrap(zctx *zed.Context, v Value) []Value {
	typ, body := v.Val.Type(), v.Val.Bytes()
	one := zed.NewInt64(1)
	str := zed.NewString("other")
	var out []Value
	add := func(name string, t zed.Type, elems ...zcode.Bytes) {
		var b zcode.Builder
		for _, e := range elems {
			b.Append(e)
		}
		out = append(out, Value{name, zed.NewValue(t, b.Bytes()).Copy()})
	}
	n := v.Name
	rec1 := zctx.MustLookupTypeRecord([]zed.Field{{Name: "f", Type: typ}})
	rec2 := zctx.MustLookupTypeRecord([]zed.Field{{Name: "f", Type: typ}, {Name: "g", Type: zed.TypeInt64}})
	add("{f:"+n+"}", rec1, body)
	add("{f:"+n+",g:1}", rec2, body, one.Bytes())
	add("["+n+"]", zctx.LookupTypeArray(typ), body)
	add("["+n+","+n+"]", zctx.LookupTypeArray(typ), body, body)
	add("|["+n+"]|", zctx.LookupTypeSet(typ), body)
	add("|{"+n+":1}|", zctx.LookupTypeMap(typ, zed.TypeInt64), body, one.Bytes())
	add("|{\"k\":"+n+"}|", zctx.LookupTypeMap(zed.TypeString, typ), zed.NewString("k").Bytes(), body)
	out = append(out, Value{"error(" + n + ")", zed.NewValue(zctx.LookupTypeError(typ), body).Copy()})
	if named, err := zctx.LookupTypeNamed("wrapped", rec1); err == nil {
		add("{f:"+n+"}(=wrapped)", named, body)
	}
	// a named type over v's own type (whatever its kind: named errors, named unions, named
	// primitives ...), used once, used twice in one value (definition, then reference), and
	// as the type of two fields
	if nm, err := zctx.LookupTypeNamed("nm", typ); err == nil && typ.Kind() != zed.UnionKind {
		out = append(out, Value{n + "(=nm)", zed.NewValue(nm, body).Copy()})
		add("["+n+"(=nm),"+n+"(nm)]", zctx.LookupTypeArray(nm), body, body)
		add("{f:"+n+"(=nm),g:"+n+"(nm)}", zctx.MustLookupTypeRecord([]zed.Field{{Name: "f", Type: nm}, {Name: "g", Type: nm}}), body, body)
		add("{f:"+n+"(=nm),g:1}", zctx.MustLookupTypeRecord([]zed.Field{{Name: "f", Type: nm}, {Name: "g", Type: zed.TypeInt64}}), body, one.Bytes())
	}
	// array of records, second element with a null field
	add("[{f:"+n+"},{f:null}]", zctx.LookupTypeArray(rec1), func() zcode.Bytes { var b zcode.Builder; b.Append(body); return b.Bytes() }(), func() zcode.Bytes { var b zcode.Builder; b.Append(nil); return b.Bytes() }())
	// array whose elements are a union of v's type and string
	if zed.TypeUnder(typ) != zed.TypeString && typ.Kind() != zed.UnionKind && typ != zed.TypeNull {
		u := zctx.LookupTypeUnion([]zed.Type{typ, zed.TypeString})
		tag := func(t zed.Type, b zcode.Bytes) zcode.Bytes {
			var bb zcode.Builder
			bb.Append(zed.EncodeInt(int64(u.TagOf(t))))
			bb.Append(b)
			return bb.Bytes()
		}
		add("["+n+",\"other\"]", zctx.LookupTypeArray(u), tag(typ, body), tag(zed.TypeString, str.Bytes()))
		// the same union as a map key type, a map value type, a set element type and a field type
		var mk zcode.Builder
		mk.Append(tag(typ, body))
		mk.Append(one.Bytes())
		mk.Append(tag(zed.TypeString, str.Bytes()))
		mk.Append(one.Bytes())
		out = append(out, Value{"|{" + n + ":1,\"other\":1}|", zed.NewValue(zctx.LookupTypeMap(u, zed.TypeInt64), zed.NormalizeMap(mk.Bytes())).Copy()})
		add("|{\"k\":"+n+"((union))}|", zctx.LookupTypeMap(zed.TypeString, u), zed.NewString("k").Bytes(), tag(typ, body))
		var sk zcode.Builder
		sk.Append(tag(typ, body))
		sk.Append(tag(zed.TypeString, str.Bytes()))
		out = append(out, Value{"|[" + n + ",\"other\"]|", zed.NewValue(zctx.LookupTypeSet(u), zed.NormalizeSet(sk.Bytes())).Copy()})
		add("{f:"+n+"((union))}", zctx.MustLookupTypeRecord([]zed.Field{{Name: "f", Type: u}}), tag(typ, body))
	}
	return out
}

// TypeEq is structural equality of types from possibly different contexts.
func TypeEq(a, b zed.Type) bool {
	if a == nil || b == nil {
		return a == b
	}
	switch a := a.(type) {
	case *zed.TypeNamed:
		b, ok := b.(*zed.TypeNamed)
		return ok && a.Name == b.Name && TypeEq(a.Type, b.Type)
	case *zed.TypeRecord:
		b, ok := b.(*zed.TypeRecord)
		if !ok || len(a.Fields) != len(b.Fields) {
			return false
		}
		for i := range a.Fields {
			if a.Fields[i].Name != b.Fields[i].Name || !TypeEq(a.Fields[i].Type, b.Fields[i].Type) {
				return false
			}
		}
		return true
	case *zed.TypeArray:
		b, ok := b.(*zed.TypeArray)
		return ok && TypeEq(a.Type, b.Type)
	case *zed.TypeSet:
		b, ok := b.(*zed.TypeSet)
		return ok && TypeEq(a.Type, b.Type)
	case *zed.TypeMap:
		b, ok := b.(*zed.TypeMap)
		return ok && TypeEq(a.KeyType, b.KeyType) && TypeEq(a.ValType, b.ValType)
	case *zed.TypeUnion:
		b, ok := b.(*zed.TypeUnion)
		if !ok || len(a.Types) != len(b.Types) {
			return false
		}
		// member order is canonical per context; compare as sets
		used := make([]bool, len(b.Types))
	outer:
		for _, at := range a.Types {
			for j, bt := range b.Types {
				if !used[j] && TypeEq(at, bt) {
					used[j] = true
					continue outer
				}
			}
			return false
		}
		return true
	case *zed.TypeEnum:
		b, ok := b.(*zed.TypeEnum)
		if !ok || len(a.Symbols) != len(b.Symbols) {
			return false
		}
		for i := range a.Symbols {
			if a.Symbols[i] != b.Symbols[i] {
				return false
			}
		}
		return true
	case *zed.TypeError:
		b, ok := b.(*zed.TypeError)
		return ok && TypeEq(a.Type, b.Type)
	default:
		if _, named := b.(*zed.TypeNamed); named {
			return false
		}
		return a.ID() == b.ID() && a.ID() < zed.IDTypeComplex
	}
}

// ValueEq is structural equality of (type, bytes) pairs from possibly
// different contexts: same type structure, same value bytes (union tags are
// compared through the member they select; type values by decoding).
func ValueEq(a, b zed.Value) bool {
	if !TypeEq(a.Type(), b.Type()) {
		return false
	}
	return bytesEq(a.Type(), a.Bytes(), b.Type(), b.Bytes())
}

func bytesEq(ta zed.Type, ba zcode.Bytes, tb zed.Type, bb zcode.Bytes) bool {
	if ba == nil || bb == nil {
		return ba == nil && bb == nil
	}
	switch ta := ta.(type) {
	case *zed.TypeNamed:
		return bytesEq(ta.Type, ba, tb.(*zed.TypeNamed).Type, bb)
	case *zed.TypeRecord:
		tbr := tb.(*zed.TypeRecord)
		ia, ib := ba.Iter(), bb.Iter()
		for i := range ta.Fields {
			if ia.Done() || ib.Done() {
				return ia.Done() && ib.Done()
			}
			if !bytesEq(ta.Fields[i].Type, ia.Next(), tbr.Fields[i].Type, ib.Next()) {
				return false
			}
		}
		return ia.Done() && ib.Done()
	case *zed.TypeArray:
		return seqEq(ta.Type, ba, tb.(*zed.TypeArray).Type, bb)
	case *zed.TypeSet:
		return seqEq(ta.Type, ba, tb.(*zed.TypeSet).Type, bb)
	case *zed.TypeMap:
		tbm := tb.(*zed.TypeMap)
		ia, ib := ba.Iter(), bb.Iter()
		for !ia.Done() && !ib.Done() {
			if !bytesEq(ta.KeyType, ia.Next(), tbm.KeyType, ib.Next()) {
				return false
			}
			if ia.Done() || ib.Done() {
				return false
			}
			if !bytesEq(ta.ValType, ia.Next(), tbm.ValType, ib.Next()) {
				return false
			}
		}
		return ia.Done() && ib.Done()
	case *zed.TypeUnion:
		tbu := tb.(*zed.TypeUnion)
		ma, va := ta.Untag(ba)
		mb, vb := tbu.Untag(bb)
		return TypeEq(ma, mb) && bytesEq(ma, va, mb, vb)
	case *zed.TypeError:
		return bytesEq(ta.Type, ba, tb.(*zed.TypeError).Type, bb)
	case *zed.TypeOfType:
		// type values are serialized types; compare the types they denote
		za, zb := zed.NewContext(), zed.NewContext()
		x, err1 := za.LookupByValue(append(zcode.Bytes(nil), ba...))
		y, err2 := zb.LookupByValue(append(zcode.Bytes(nil), bb...))
		if err1 != nil || err2 != nil {
			return bytes.Equal(ba, bb)
		}
		return TypeEq(x, y)
	default:
		return bytes.Equal(ba, bb)
	}
}

func seqEq(ea zed.Type, ba zcode.Bytes, eb zed.Type, bb zcode.Bytes) bool {
	ia, ib := ba.Iter(), bb.Iter()
	for !ia.Done() && !ib.Done() {
		if !bytesEq(ea, ia.Next(), eb, ib.Next()) {
			return false
		}
	}
	return ia.Done() && ib.Done()
}

// Describe renders a value for reports without relying on round trips.
func Describe(v zed.Value) (s string) {
	defer func() {
		// a value whose bytes do not fit its type (which is what a failed round trip
		// can produce) cannot be formatted
		if p := recover(); p != nil {
			s = fmt.Sprintf("(bytes do not fit the type) :: %s [% x]", zson.FormatType(v.Type()), []byte(v.Bytes()))
		}
	}()
	return fmt.Sprintf("%s :: %s [% x]", zson.FormatValue(v), zson.FormatType(v.Type()), []byte(v.Bytes()))
}

// SeqEq compares two value sequences element-wise.
func SeqEq(a, b []zed.Value) (int, bool) {
	if len(a) != len(b) {
		n := len(a)
		if len(b) < n {
			n = len(b)
		}
		for i := 0; i < n; i++ {
			if !ValueEq(a[i], b[i]) {
				return i, false
			}
		}
		return n, false
	}
	for i := range a {
		if !ValueEq(a[i], b[i]) {
			return i, false
		}
	}
	return -1, true
}

// Consistent checks, independently of zed.Value.Validate, that bytes are
// structurally consistent with typ: containers hold exactly the items their
// type calls for (record fields, map key/value pairs), union tags and enum
// selectors are in range, recursively, including under error and named types.
// Primitive leaves are not interpreted.
func Consistent(typ zed.Type, b zcode.Bytes) (err error) {
	defer func() {
		if p := recover(); p != nil {
			err = fmt.Errorf("container encoding cannot be walked: %v", p)
		}
	}()
	return consistent(typ, b)
}

func consistent(typ zed.Type, b zcode.Bytes) error {
	if b == nil {
		return nil
	}
	switch t := typ.(type) {
	case *zed.TypeNamed:
		return consistent(t.Type, b)
	case *zed.TypeError:
		return consistent(t.Type, b)
	case *zed.TypeRecord:
		it := b.Iter()
		for _, f := range t.Fields {
			if it.Done() {
				return fmt.Errorf("record body ends before field %q", f.Name)
			}
			if err := consistent(f.Type, it.Next()); err != nil {
				return err
			}
		}
		if !it.Done() {
			return fmt.Errorf("record body has more items than the type has fields")
		}
	case *zed.TypeArray:
		for it := b.Iter(); !it.Done(); {
			if err := consistent(t.Type, it.Next()); err != nil {
				return err
			}
		}
	case *zed.TypeSet:
		for it := b.Iter(); !it.Done(); {
			if err := consistent(t.Type, it.Next()); err != nil {
				return err
			}
		}
	case *zed.TypeMap:
		for it := b.Iter(); !it.Done(); {
			if err := consistent(t.KeyType, it.Next()); err != nil {
				return err
			}
			if it.Done() {
				return fmt.Errorf("map body has a key without a value")
			}
			if err := consistent(t.ValType, it.Next()); err != nil {
				return err
			}
		}
	case *zed.TypeUnion:
		it := b.Iter()
		if it.Done() {
			return fmt.Errorf("union body is empty")
		}
		tag := zed.DecodeInt(it.Next())
		if tag < 0 || int(tag) >= len(t.Types) {
			return fmt.Errorf("union tag %d but the type has %d members", tag, len(t.Types))
		}
		if it.Done() {
			return fmt.Errorf("union body has a tag and no value")
		}
		v := it.Next()
		if !it.Done() {
			return fmt.Errorf("union body has more than a tag and a value")
		}
		return consistent(t.Types[tag], v)
	case *zed.TypeEnum:
		if sel := zed.DecodeUint(b); sel >= uint64(len(t.Symbols)) {
			return fmt.Errorf("enum selector %d but the type has %d symbols", sel, len(t.Symbols))
		}
	}
	return nil
}
