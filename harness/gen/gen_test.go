package gen

import (
	"testing"

	zed "github.com/brimdata/super"
)

func TestUniverseParses(t *testing.T) {
	zctx := zed.NewContext()
	core := Core(zctx)
	n := len(core)
	for _, v := range core {
		n += len(Wrap(zctx, v))
		if !ValueEq(v.Val, v.Val) {
			t.Errorf("%s not equal to itself", v.Name)
		}
	}
	t.Logf("core=%d with wraps=%d small=%d", len(core), n, len(Small(zctx)))
}
